#!/bin/sh
# Builds the gosym engine from sources on disk (offline).
set -e
cd "$(dirname "$0")/engine"
export PATH=/opt/veriftools/go1.26.8/bin:$PATH GOFLAGS=-mod=mod GOPROXY=off GOTOOLCHAIN=local
unset GOSUMDB
mkdir -p ../bin ../out ../evidence
go build -o ../bin/gosym ./cmd/gosym
echo "gosym built"
