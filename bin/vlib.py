#!/usr/bin/env python3
"""Shared helpers for the vcheck driver: overlay construction, gosym
invocation, native replay."""
import json, os, re, subprocess, sys, time, hashlib, shutil

VERIF = os.path.dirname(os.path.dirname(os.path.abspath(__file__)))
REPO = os.environ.get("VERIF_REPO", "/repo")
OUT = os.environ.get("VERIF_OUT", os.path.join(VERIF, "out"))
GOSYM = os.path.join(VERIF, "bin", "gosym")
GO126 = "/opt/veriftools/go1.26.8/bin"

def env_go():
    e = dict(os.environ)
    e["PATH"] = GO126 + ":" + e.get("PATH", "")
    e["GOFLAGS"] = "-mod=mod"
    e["GOPROXY"] = "off"
    e["GOTOOLCHAIN"] = "local"
    e.pop("GOSUMDB", None)
    return e

def pkg_name_of(pkgdir):
    """Go package name of the non-test files in REPO/pkgdir."""
    d = os.path.join(REPO, pkgdir)
    for f in sorted(os.listdir(d)):
        if f.endswith(".go") and not f.endswith("_test.go"):
            for line in open(os.path.join(d, f)):
                m = re.match(r"^package\s+(\w+)", line)
                if m:
                    return m.group(1)
    raise RuntimeError("no package in " + d)

def build_overlay(check_id, pkgdir, harness_dir, transforms=(), moddir="", common=()):
    """Create the overlay files for package REPO/moddir/pkgdir.
    Returns (overlay_json_path, list_of_harness_names, transformed_files)."""
    work = os.path.join(OUT, check_id, "overlay")
    shutil.rmtree(work, ignore_errors=True)
    os.makedirs(work)
    pdir = os.path.join(moddir, pkgdir) if moddir else pkgdir
    pkg = pkg_name_of(pdir)
    ov = {}
    hdir = os.path.join(VERIF, "harness", harness_dir)
    names = []
    def add(virt_name, content):
        real = os.path.join(work, virt_name.replace("/", "__"))
        open(real, "w").write(content)
        ov[os.path.normpath(os.path.join(REPO, pdir, virt_name))] = real
    for tmpl, outn in (("zz_verif_api.go.tmpl", "zz_verif_api.go"),
                       ("zz_verif_replay_test.go.tmpl", "zz_verif_replay_test.go")):
        s = open(os.path.join(VERIF, "harness", "common", tmpl)).read().replace("PKGNAME", pkg)
        add(outn, s)
    for c in common:
        s = open(os.path.join(VERIF, "harness", "common", "zz_verif_%s.go.tmpl" % c)).read().replace("PKGNAME", pkg)
        add("zz_verif_%s.go" % c, s)
    for f in sorted(os.listdir(hdir)):
        if not f.endswith(".go"):
            continue
        s = open(os.path.join(hdir, f)).read()
        names += re.findall(r"^func (VerifH_\w+)\(\)", s, re.M)
        add(f, s)
    reg = "package %s\n\nvar vpHarnesses = map[string]func(){\n" % pkg
    for n in names:
        reg += '\t"%s": %s,\n' % (n, n)
    reg += "}\n"
    add("zz_verif_registry.go", reg)
    # source transforms: (relative file, regex, replacement, min_matches)
    transformed = []
    for (rel, pat, repl, minm) in transforms:
        if rel.startswith("mod:"):
            # a file of a dependency: "mod:<module path>:<file relative to the module root>"
            _, modpath, mrel = rel.split(":", 2)
            q = subprocess.run(["go", "list", "-m", "-f", "{{.Dir}}", modpath], cwd=os.path.join(REPO, moddir) if moddir else REPO,
                               env=env_go(), capture_output=True, text=True)
            if q.returncode != 0 or not q.stdout.strip():
                raise RuntimeError("cannot locate module %s: %s" % (modpath, q.stderr[-300:]))
            src = os.path.join(q.stdout.strip(), mrel)
        else:
            src = os.path.join(REPO, moddir, rel) if moddir else os.path.join(REPO, rel)
        real = ov.get(src)
        s = open(real or src).read()
        s2, n = re.subn(pat, repl, s)
        if n < minm:
            raise RuntimeError("transform %r matched %d < %d times in %s" % (pat, n, minm, rel))
        realp = os.path.join(work, "xf__" + rel.replace("/", "__").replace(":", "__"))
        open(realp, "w").write(s2)
        ov[src] = realp
        transformed.append(rel)
    ovp = os.path.join(OUT, check_id, "overlay.json")
    json.dump(ov, open(ovp, "w"), indent=1)
    # go test -overlay format
    json.dump({"Replace": ov}, open(os.path.join(OUT, check_id, "overlay_gotest.json"), "w"), indent=1)
    return ovp, names, transformed

def run_gosym(check_id, pkgdir, overlay, harness_re, moddir="", inits=(), params=None, known=(), unwind=64,
              maxpaths=0, workers=0, timeout_s=3600, solver="z3", extra=()):
    outp = os.path.join(OUT, check_id, "result_%s.json" % hashlib.md5(harness_re.encode()).hexdigest()[:8])
    cmd = [GOSYM, "-dir", os.path.join(REPO, moddir) if moddir else REPO, "-pkg", "./" + pkgdir if pkgdir != "." else ".",
           "-overlay", overlay, "-harness", harness_re, "-out", outp, "-unwind", str(unwind), "-solver", solver]
    if inits:
        cmd += ["-init", ",".join(inits)]
    if params:
        cmd += ["-param", ",".join("%s=%d" % kv for kv in params.items())]
    if known:
        cmd += ["-known", ",".join(known)]
    if maxpaths:
        cmd += ["-maxpaths", str(maxpaths)]
    if workers:
        cmd += ["-workers", str(workers)]
    cmd += list(extra)
    t0 = time.time()
    p = subprocess.run(cmd, env=env_go(), capture_output=True, text=True, timeout=timeout_s)
    dt = time.time() - t0
    sys.stderr.write(p.stderr)
    if p.returncode != 0:
        raise RuntimeError("gosym failed (%d): %s" % (p.returncode, p.stderr[-2000:]))
    return json.load(open(outp)), dt

def native_replay(check_id, pkgdir, violation, moddir="", timeout_s=180, tries=1, params=None):
    """Run the harness natively on the counterexample. Returns (status, path, output)."""
    d = os.path.join(OUT, check_id, "replays")
    os.makedirs(d, exist_ok=True)
    key = hashlib.md5(json.dumps(violation, sort_keys=True).encode()).hexdigest()[:10]
    rp = os.path.join(d, "%s_%s_%s.json" % (violation["harness"], re.sub(r"\W+", "_", violation["assert"])[:40], key))
    json.dump(violation, open(rp, "w"), indent=1)
    ov = os.path.join(OUT, check_id, "overlay_gotest.json")
    e = env_go()
    e["VERIF_REPLAY"] = rp
    for k, v in (params or {}).items():
        e["VERIF_PARAM_" + k] = str(v)
    wd = os.path.join(REPO, moddir) if moddir else REPO
    last = ""
    for _ in range(tries):
        try:
            p = subprocess.run(["go", "test", "-vet=off", "-count=1", "-overlay", ov, "-run", "^TestVerifReplay$",
                                "-v", "./" + pkgdir if pkgdir != "." else "."], cwd=wd, env=e,
                               capture_output=True, text=True, timeout=timeout_s)
            out = p.stdout + p.stderr
        except subprocess.TimeoutExpired as ex:
            out = "VPRESULT deadlock (go test timed out)\n"
        last = out
        m = re.search(r"^VPRESULT (.*)$", out, re.M)
        status = m.group(1) if m else "no-result"
        if status.startswith("assert-failed") or status.startswith("panic") or status.startswith("deadlock"):
            return status, rp, out
    m = re.search(r"^VPRESULT (.*)$", last, re.M)
    return (m.group(1) if m else "no-result"), rp, last
