"""Check table: per property, the harness groups that decide it."""

HEADERFS_XF = [
    ("headerfs/store.go", r"os\.OpenFile\(", "vpOpenFile(", 1),
    ("headerfs/store.go", r"os\.Truncate\(", "vpOsTruncate(", 1),
    ("headerfs/store.go", r"os\.Remove\(", "vpOsRemove(", 1),
]
HEADERFS_INITS = [
    "github.com/lightninglabs/neutrino/headerfs", "github.com/btcsuite/btcwallet/walletdb", "io",
    "github.com/btcsuite/btcd/wire/v2", "github.com/btcsuite/btcd/chainhash/v2", "bytes",
]
HEADERFS_FILES = ["headerfs/store.go", "headerfs/index.go", "headerfs/file.go"]

ROOT_INITS = [
    "github.com/lightninglabs/neutrino...", "github.com/lightninglabs/neutrino/banman", "github.com/btcsuite/btcwallet/walletdb",
    "io", "bytes", "encoding/binary", "github.com/btcsuite/btcd/wire/v2", "github.com/btcsuite/btcd/chainhash/v2",
    "github.com/lightninglabs/neutrino/headerfs", "github.com/lightninglabs/neutrino/chainsync",
    "github.com/lightninglabs/neutrino/query", "github.com/lightninglabs/neutrino/blockntfns", "github.com/lightninglabs/neutrino/cache", "github.com/lightninglabs/neutrino/cache/lru",
]

COMMON_ASSUMPTIONS = [
    "SHA-256 based digests (BlockHash, DoubleHashH, ...) are modelled as injective uninterpreted functions (no collisions, no cycles); natively the real hash runs",
    "btclog logging calls are no-ops; fmt message building is concrete and never the subject",
    "sync.Mutex/RWMutex/WaitGroup/Once/Cond, sync/atomic, channels and select are engine models with their documented semantics",
    "the Go compiler's SSA (x/tools go/ssa v0.50.0) is the semantics of the source",
]

CHECKS = {
    "C07": {
        "assumptions": COMMON_ASSUMPTIONS + [
            "os.OpenFile/os.Truncate/os.Remove in headerfs/store.go are redirected (source overlay regenerated on every run) to an in-memory POSIX O_APPEND file model; walletdb.DB is an in-memory model with atomic transactions (bbolt itself is trusted)",
            "the 65536 index sub-buckets created by ensureIndexSubBuckets are materialised lazily by the DB model (the creation loop itself is outside the claim)",
            "callers pass consecutive heights to WriteHeaders (its documented precondition)",
            "2-byte index prefixes of the hashes in play are either all equal or pairwise different (two regimes)",
        ],
        "groups": [
            {"name": "blockops", "pkg": "headerfs", "harness_dir": "headerfs", "harness": "VerifH_C07_(blockOps|filterOps)",
             "transforms": HEADERFS_XF, "inits": HEADERFS_INITS, "common": ["walletdb"], "anchored_files": HEADERFS_FILES,
             "params": {"ops": 2, "batch": 2}, "thorough": {"params": {"ops": 3, "batch": 2}},
             "must_reach": {"VerifH_C07_blockOps": ["append", "rollback", "reopen", "rollback-past-genesis"],
                            "VerifH_C07_filterOps": ["f-append", "f-rollback", "f-reopen"]},
             "outside": "more than ops operations per history, batches > 2, rollbacks > 3, bbolt and the OS file system"},
            {"name": "fault", "pkg": "headerfs", "harness_dir": "headerfs", "harness": "VerifH_C07_appendFault",
             "transforms": HEADERFS_XF, "inits": HEADERFS_INITS, "common": ["walletdb"], "anchored_files": HEADERFS_FILES,
             "params": {"history": 1}, "thorough": {"params": {"history": 2}},
             "must_reach": {"VerifH_C07_appendFault": ["append-failed", "no-fault-hit"]},
             "outside": "more than one injected failure per operation; failures inside rollbacks"},
        ],
    },
    "C08": {
        "assumptions": COMMON_ASSUMPTIONS + [
            "file system model: durable steps happen in program order; a crash leaves all earlier steps applied, a crash inside a Write leaves a prefix of the data (0, 1, half, all-but-one bytes); Truncate and a bbolt commit are atomic",
            "walletdb.DB is an in-memory model with atomic transactions (bbolt itself is trusted)",
        ],
        "groups": [
            {"name": "k1", "pkg": "headerfs", "harness_dir": "headerfs", "harness": "VerifH_C08_(block|filter)Crash",
             "transforms": HEADERFS_XF, "inits": HEADERFS_INITS, "common": ["walletdb"], "anchored_files": HEADERFS_FILES,
             "params": {"history": 1}, "thorough": {"params": {"history": 2}},
             "must_reach": {"VerifH_C08_blockCrash": ["crashed-at-write", "crashed-at-truncate", "crashed-at-db-commit", "no-crash"],
                            "VerifH_C08_filterCrash": ["crashed-at-write", "crashed-at-truncate", "crashed-at-db-commit", "no-crash"]},
             "outside": "histories longer than the bound; OS-level write reordering; crashes inside a bbolt commit"},
        ],
    },
    "C16": {
        "assumptions": COMMON_ASSUMPTIONS + [
            "sync.Map is modelled as a linearizable association list; context switches happen only at synchronisation operations (sync.Map methods, mutex operations, channel operations), which is sound for data-race-free code only (C18 is not claimed)",
            "Value.Size() is constant per value except for at most one failing call per history",
        ],
        "groups": [
            {"name": "seq", "pkg": "lru", "moddir": "cache", "harness_dir": "lru", "harness": "VerifH_C16_sequential",
             "inits": ["github.com/lightninglabs/neutrino/cache/lru", "github.com/lightninglabs/neutrino/cache"],
             "anchored_files": ["lru/lru.go", "lru/sync_map.go", "lru/list.go", "cache.go"],
             "params": {"ops": 3, "keys": 2, "sizecalls": 6}, "thorough": {"params": {"ops": 4, "keys": 2, "sizecalls": 8}},
             "must_reach": {"VerifH_C16_sequential": ["put-error", "put-too-big", "delete-error", "after-failed-op"]},
             "outside": "histories longer than ops, more than keys keys, more than one failing Size() call per history"},
            {"name": "conc", "pkg": "lru", "moddir": "cache", "harness_dir": "lru", "harness": "VerifH_C16_concurrent",
             "inits": ["github.com/lightninglabs/neutrino/cache/lru", "github.com/lightninglabs/neutrino/cache"],
             "anchored_files": ["lru/lru.go", "lru/sync_map.go", "lru/list.go"],
             "params": {"threads": 2, "keys": 2, "preempt": 2, "maxcap": 2}, "thorough": {"params": {"threads": 2, "keys": 2, "preempt": 3, "maxcap": 3}},
             "no_native_replay": "the counterexample is a schedule of index/mutex operations; the native Go runtime cannot be forced to follow it without yield hooks in lru.go",
             "outside": "more than 2 concurrent operations (3 in the conc3 group), Range* racing with writers, preemptions beyond the bound"},
            {"name": "conc3", "pkg": "lru", "moddir": "cache", "harness_dir": "lru", "harness": "VerifH_C16_concurrent", "thorough_only": True,
             "inits": ["github.com/lightninglabs/neutrino/cache/lru", "github.com/lightninglabs/neutrino/cache"],
             "anchored_files": ["lru/lru.go"],
             "params": {"threads": 3, "keys": 2, "preempt": 1, "maxcap": 2},
             "no_native_replay": "schedule-dependent counterexample",
             "outside": "more than 3 concurrent operations"},
        ],
    },
    "C13": {
        "assumptions": COMMON_ASSUMPTIONS + [
            "time.Now() in banman/store.go is redirected (source overlay) to a harness clock returning arbitrary non-decreasing instants (seconds and nanoseconds symbolic); ban durations range over {1s, 1.5s, 2s, 24h, 3.999999999s} (>= 1s: expiry is stored in whole seconds)",
            "walletdb.DB is an in-memory model with atomic transactions (bbolt durability is trusted)",
            "net.ParseIP / net.SplitHostPort run natively on concrete strings (their documented contract); IPv6 networks have a non-zero first byte, IPv4 networks a 4-byte mask",
            "*peer.Peer, connmgr and addrmgr are engine recorders (Addr/Services set by the harness, Disconnect recorded); consecutive clock readings in the enforcement harness are <= 60 s apart",
        ],
        "groups": [
            {"name": "store", "pkg": "banman", "harness_dir": "banman", "common": ["walletdb"],
             "harness": "VerifH_C13_(store|reban|expiryBound|keys|spellings)",
             "transforms": [("banman/store.go", r"time\.Now\(\)", "vpNow()", 2)],
             "inits": ["github.com/lightninglabs/neutrino/banman", "github.com/btcsuite/btcwallet/walletdb", "io", "bytes", "encoding/binary"],
             "anchored_files": ["banman/store.go", "banman/codec.go", "banman/util.go"],
             "params": {"ops": 1, "durations": 3}, "thorough": {"params": {"ops": 2, "durations": 3}},
             "must_reach": {"VerifH_C13_store": ["ban", "unban", "reopen"], "VerifH_C13_reban": ["second-ban-live", "second-ban-lapsed"],
                            "VerifH_C13_expiryBound": ["well-before-lapse", "after-true-expiry"]},
             "outside": "histories longer than ops (+ the final status sweep); sub-second ban durations; masks other than the defaults"},
            {"name": "enforce", "pkg": ".", "harness_dir": "root", "common": ["walletdb", "stores", "pow"], "harness": "VerifH_C13_(onVersion|refuseBanned)",
             "inits": ROOT_INITS, "anchored_files": ["neutrino.go", "banman/store.go", "banman/util.go"],
             "no_native_replay": "uses the engine's *peer.Peer / connmgr recorders, which have no native counterpart",
             "must_reach": {"VerifH_C13_onVersion": ["services-ok", "services-missing"], "VerifH_C13_refuseBanned": ["banned-peer-refused", "clean-peer-added"]},
             "outside": "the live connection manager and peer handshake; ban call sites in query.go/blockmanager.go are decided in C03/C06"},
        ],
    },
    "C10": {
        "assumptions": COMMON_ASSUMPTIONS + [
            "UtxoScannerConfig callbacks (BestSnapshot, GetBlockHash, BlockFilterMatches, GetBlock) are harness stubs over a 4-5 block chain; the filter stub matches exactly the blocks that create or spend a watched script (no false negatives, no false positives)",
            "requests arrive before Start or at chain-callback boundaries of the running scan (the scanner goroutine runs under the engine's run-to-block scheduler); Stop is called from a second goroutine at a chosen callback boundary",
            "one funding transaction with two outputs, at most one spend per outpoint; out-of-range output index 2",
        ],
        "groups": [
            {"name": "scan", "pkg": ".", "harness_dir": "root", "common": ["walletdb", "stores", "pow"], "harness": "VerifH_C10_scan",
             "inits": ROOT_INITS, "anchored_files": ["utxoscanner.go", "batch_spend_reporter.go"],
             "params": {"requests": 2, "arrivals": 1, "maxspends": 1},
             "thorough": {"params": {"requests": 2, "arrivals": 2, "maxspends": 2, "inputpos": 1}},
             "must_reach": {"VerifH_C10_scan": ["expect-spend", "expect-unspent-output", "expect-empty", "arrived-after-scan"]},
             "outside": "more than 2 requests / 2 spends, chains longer than 5 blocks, arrival of a request between two instructions of the scanner goroutine (only call boundaries)"},
            {"name": "stop", "pkg": ".", "harness_dir": "root", "common": ["walletdb", "stores", "pow"], "harness": "VerifH_C10_scan", "thorough_only": True,
             "inits": ROOT_INITS, "anchored_files": ["utxoscanner.go", "batch_spend_reporter.go"],
             "params": {"requests": 1, "arrivals": 1, "maxspends": 1, "withStop": 1, "stopPoints": 4},
             "must_reach": {"VerifH_C10_scan": ["stopped", "shutdown-error"]},
             "outside": "Stop racing with Enqueue at sub-call granularity"},
        ],
    },
    "C14": {
        "assumptions": COMMON_ASSUMPTIONS + [
            "the import source is an in-memory HeaderImportSource (file/HTTP/mmap sources and metadata (de)serialisation are outside the claim); the target stores are slice-backed models of headerfs.BlockHeaderStore/FilterHeaderStore with positional append (their conformance with the real stores is the subject of C07) and an injected failure of the n-th WriteHeaders call",
            "btcd's proof-of-work test (checkProofOfWork) is an uninterpreted predicate of the header hash; the rest of CheckBlockHeaderSanity/CheckBlockHeaderContext/CalcPastMedianTime runs as real SSA under regtest-like parameters (PoWNoRetargeting), so the difficulty rule is Bits == PowLimitBits",
            "the clock is concrete (2023-11-14 + k s); header timestamps are in the past",
            "the honest chain has <= 5 headers above genesis; a corrupted file stays self-consistent above the corrupted position",
        ],
        "groups": [
            {"name": "import", "pkg": "chainimport", "harness_dir": "chainimport", "common": ["pow", "stores"], "harness": "VerifH_C14_import",
             "inits": ["github.com/lightninglabs/neutrino/chainimport", "io", "github.com/btcsuite/btcd/wire/v2", "github.com/btcsuite/btcd/chainhash/v2",
                       "github.com/lightninglabs/neutrino/chainsync", "github.com/lightninglabs/neutrino/headerfs", "bytes"],
             "anchored_files": ["chainimport/headers_import.go", "chainimport/iter.go", "chainimport/block_headers_validator.go",
                                "chainimport/filter_headers_validator.go", "chainimport/utils.go"],
             "params": {"maxtip": 2, "maxstart": 2, "maxcount": 3, "maxbatch": 2, "corruptions": 3, "faults": 1, "maxheight": 5},
             "thorough": {"params": {"maxtip": 3, "maxstart": 3, "maxcount": 4, "maxbatch": 3, "corruptions": 3, "faults": 1, "maxheight": 6}},
             "must_reach": {"VerifH_C14_import": ["import-succeeded", "import-failed"]},
             "outside": "file start > 3, more than 4 headers, batch size > 3, more than one injected write failure, the real file/HTTP sources"},
        ],
    },
    "C06": {
        "assumptions": COMMON_ASSUMPTIONS + [
            "blockchain.CheckBlockSanity and blockchain.ValidateWitnessCommitment are free symbolic predicates per response block (btcd is the oracle for merkle/witness validity): what is decided is that neutrino calls both on the right block and honours the results",
            "the work manager is a stub that feeds every response to the real handler until it reports Finished (the dispatcher's retry contract, decided for the real dispatcher in C12)",
            "block header store is the slice model; BlockCache is the released lru cache; ban store is the real banman store on the walletdb model; concrete clock",
        ],
        "groups": [
            {"name": "getblock", "pkg": ".", "harness_dir": "root", "common": ["walletdb", "stores", "pow"], "harness": "VerifH_C06_getBlock",
             "inits": ROOT_INITS, "anchored_files": ["query.go", "cacheable_block.go", "banman/store.go"],
             "params": {"maxresponses": 2}, "thorough": {"params": {"maxresponses": 3}},
             "no_native_replay": "block validity is a symbolic predicate; a native replay would need real blocks with chosen merkle/witness validity",
             "must_reach": {"VerifH_C06_getBlock": ["valid-response-present", "no-valid-response", "expect-ban"]},
             "outside": "more than 3 responses; merkle-root and witness-commitment arithmetic (btcd); the real dispatcher's scheduling (C12)"},
        ],
    },
    "C05": {
        "assumptions": COMMON_ASSUMPTIONS + [
            "header stores are the slice models (C07 ties the real stores to them); FilterCache is the released lru cache; FilterDB is a map model behind the real chanutils.BatchWriter/ConcurrentQueue goroutines; the work manager is a stub feeding the response stream to the real handler until it reports Finished",
            "filters are 3-byte GCS payloads (N=1 + two bytes, one symbolic); gcs.FromNBytes, builder.GetFilterHash and MakeHeaderForFilter run as real SSA over the injective hash model",
        ],
        "groups": [
            {"name": "getcfilter", "pkg": ".", "harness_dir": "root", "common": ["walletdb", "stores", "pow"], "harness": "VerifH_C05_getCFilter",
             "inits": ROOT_INITS, "anchored_files": ["query.go", "cacheable_filter.go", "chanutils/batch_writer.go", "filterdb/db.go"],
             "params": {"maxresponses": 2, "blocks": 3, "kinds": 5, "caps": 0}, "thorough": {"params": {"maxresponses": 3, "blocks": 3, "kinds": 5, "caps": 1}},
             "must_reach": {"VerifH_C05_getCFilter": ["filter-returned", "call-failed", "cached", "persisted", "target-above-filter-tip"]},
             "outside": "more than 3 blocks / 3 responses; batch caps other than none/2; GCS decoding beyond N-prefix parsing; concurrent GetCFilter callers (single-flight mutex)"},
        ],
    },
    "C19": {
        "assumptions": COMMON_ASSUMPTIONS + [
            "the blockManager is the real one (newBlockManager) on slice-model header stores; the filter store resolves its tip through the block index like the real store (C07 ties the real stores to list behaviour)",
            "the subscription manager's side of blockNtfnChan is a collector goroutine under the engine's run-to-block scheduler; it records, per event, the store tips and the tip a backlog request would be computed up to at that moment",
            "callers of writeCFHeadersMsg pass a stop hash at height filterTip+len(hashes) (what getUncheckpointedCFHeaders/getCheckpointedCFHeaders request and accept)",
            "concrete clock (only feeds progress logging)",
        ],
        "groups": [
            {"name": "events", "pkg": ".", "harness_dir": "root", "common": ["walletdb", "stores", "pow"],
             "harness": "VerifH_C19_(writeCFHeaders|rollback|backlog|compose)",
             "inits": ROOT_INITS, "anchored_files": ["blockmanager.go", "blockntfns/notification.go"],
             "params": {"chain": 4}, "thorough": {"params": {"chain": 6}},
             "must_reach": {"VerifH_C19_writeCFHeaders": ["write-accepted", "write-refused"],
                            "VerifH_C19_rollback": ["filter-headers-rolled-back", "only-uncommitted-blocks-rolled-back"],
                            "VerifH_C19_backlog": ["backlog", "height-zero", "height-above-tip"]},
             "outside": "chains longer than 4 (6) blocks, batches > 2 hashes, more than one reorg per history; the subscription manager beyond the channel (C11)"},
        ],
    },
    "C03": {
        "assumptions": COMMON_ASSUMPTIONS + [
            "the blockManager is the real one on slice-model header stores (filter store tip resolved through the block index as in the real store)",
            "queryAllPeers and GetBlock are harness stubs that deliver each peer's scripted answer to the real response closures; a model filter payload whose first byte is 0xBA stands for 'omits an output script of the block' (VerifyBasicBlockFilter's verdict; btcd's GCS matcher is the oracle)",
            "peer behaviours: honest, false filter hash with the true filter served, self-consistent invalid filter, false hash with the filter not served, silent, wrong previous filter header; the first peer is honest",
            "Go's randomised map iteration is explored as one global order of the peer addresses per path (quick) or independently per range statement (thorough)",
        ],
        "groups": [
            {"name": "stores", "pkg": ".", "harness_dir": "root", "common": ["walletdb", "stores", "pow"],
             "harness": "VerifH_C19_(writeCFHeaders|rollback)",
             "inits": ROOT_INITS, "anchored_files": ["blockmanager.go", "headerfs/store.go"],
             "params": {"chain": 4}, "thorough": {"params": {"chain": 6}},
             "must_reach": {"VerifH_C19_writeCFHeaders": ["write-accepted", "write-refused"], "VerifH_C19_rollback": ["filter-headers-rolled-back"]},
             "outside": "see C19"},
            {"name": "liars", "pkg": ".", "harness_dir": "root", "common": ["walletdb", "stores", "pow"],
             "harness": "VerifH_C03_(uncheckpointed|checkpointedResponse)",
             "inits": ROOT_INITS, "anchored_files": ["blockmanager.go", "verification.go", "chainsync/filtercontrol.go"],
             "params": {"peers": 3, "maxmissing": 2, "maporder": 2}, "thorough": {"params": {"peers": 3, "maxmissing": 1, "maporder": 1}},
             "no_native_replay": "filter validity is a marker in the model payload and the iteration order cannot be forced natively",
             "must_reach": {"VerifH_C03_uncheckpointed": ["round-committed", "liar-present-in-committed-round"],
                            "VerifH_C03_checkpointedResponse": ["delivered", "mismatch"]},
             "outside": "more than 3 peers / 2 missing headers; lies that are not provable from the block (majority heuristics); the cfHandler goroutine's waiting logic; checkpoint conflict resolution across peers (checkCFCheckptSanity/resolveConflict are only covered by the repository's own tests)"},
        ],
    },
    "C15": {
        "assumptions": COMMON_ASSUMPTIONS + [
            "the Broadcast callback is a recorder with a scripted outcome per transaction (accepted / already in mempool / invalid); block events are delivered on the subscription channel by the harness and each rebroadcast runs to completion before the next event (run-to-block scheduling): 'a rebroadcast still running' is therefore not exercised; interval ticks are not fired (timer budget 0), a block event exercises the same trigger",
            "sendTransaction's queryAllPeers is replaced by a source overlay with a stub delivering each peer's scripted getdata/reject messages to the real closure; a reject only follows a getdata from the same peer; default threshold 0.6; up to 5 interchangeable peers",
        ],
        "groups": [
            {"name": "handler", "pkg": "pushtx", "harness_dir": "pushtx", "harness": "VerifH_C15_handler",
             "inits": ["github.com/lightninglabs/neutrino/pushtx", "github.com/lightninglabs/neutrino/blockntfns",
                       "github.com/btcsuite/btcd/wire/v2", "github.com/btcsuite/btcd/chainhash/v2", "io", "bytes"],
             "anchored_files": ["pushtx/broadcaster.go", "pushtx/error.go"],
             "params": {"events": 4}, "thorough": {"params": {"events": 5}},
             "must_reach": {"VerifH_C15_handler": ["accepted", "rejected", "block", "confirmed", "parent-and-child-pending", "mark-confirmed-after-stop-returned"]},
             "outside": "more than 4 (5) events, more than 3 transactions, rebroadcasts overlapping with later events, real timers"},
            {"name": "verdict", "pkg": ".", "harness_dir": "root", "common": ["walletdb", "stores", "pow"], "harness": "VerifH_C15_verdict",
             "transforms": [("query.go", r"s\.queryAllPeers\(", "vpQueryAllPeersHook(s)(", 1)],
             "inits": ROOT_INITS, "anchored_files": ["query.go", "pushtx/error.go"],
             "params": {"maxpeers": 5},
             "no_native_replay": "uses the engine's *peer.Peer recorder",
             "must_reach": {"VerifH_C15_verdict": ["expect-failure", "expect-success", "share-exactly-at-threshold"]},
             "outside": "more than 5 peers, thresholds other than the default, the real queryAllPeers goroutines and timers"},
        ],
    },
    "C11": {
        "assumptions": COMMON_ASSUMPTIONS + [
            "the notification source is a scripted stub (backlog = heights above the requested one); lnd's queue.ConcurrentQueue runs as real SSA under the engine's scheduler",
            "deterministic run-to-block scheduling: the handler, queue and forwarding goroutines run whenever the harness blocks; subscribers read only at the end (the slowest consumer) or in bursts; free interleavings of many real goroutines are not explored (reduced scope)",
        ],
        "groups": [
            {"name": "manager", "pkg": "blockntfns", "harness_dir": "blockntfns", "harness": "VerifH_C11_(events|slowSubscriber)",
             "inits": ["github.com/lightninglabs/neutrino/blockntfns", "github.com/lightningnetwork/lnd/queue", "io"],
             "anchored_files": ["blockntfns/manager.go", "blockntfns/notification.go"],
             "params": {"events": 5, "burst": 23}, "thorough": {"params": {"events": 7, "burst": 45}},
             "no_native_replay_for": {"VerifH_C11_events": "the counterexample depends on the goroutine schedule (when the handler, queue and forwarder run relative to the harness), which the native runtime cannot be forced to follow"},
             "must_reach": {"VerifH_C11_events": ["subscribed-with-backlog", "emitted", "cancelled", "stopped"],
                            "VerifH_C11_slowSubscriber": ["slow-subscriber-cancelled"]},
             "outside": "more than 2 subscribers, more than 5 (7) events, arbitrary interleavings of the goroutines (only the run-to-block schedule)"},
        ],
    },
}
