package lru

// C16 — LRU cache: capacity, consistency, usability after failures
// (sequential differential against a reference LRU) and 2-3 thread
// interleavings at the granularity of the index / mutex operations.

import "errors"

var errVpSize = errors.New("vp: size cannot be computed")

// vpSizeCtl makes the n-th Size() call of a history fail (0 = never).
type vpSizeCtl struct {
	calls  int
	failAt int
}

var vpSizes = &vpSizeCtl{}

type vpVal struct {
	id   int
	size uint64
}

func (v *vpVal) Size() (uint64, error) {
	vpSizes.calls++
	if vpSizes.failAt != 0 && vpSizes.calls == vpSizes.failAt {
		return 0, errVpSize
	}
	return v.size, nil
}

type vpRefEntry struct {
	key int
	val *vpVal
}

// vpRef is the reference LRU: most recently used first.
type vpRef struct {
	capacity uint64
	ents     []vpRefEntry
}

func (r *vpRef) total() uint64 {
	var s uint64
	for _, e := range r.ents {
		s += e.val.size
	}
	return s
}

func (r *vpRef) find(k int) int {
	for i, e := range r.ents {
		if e.key == k {
			return i
		}
	}
	return -1
}

func (r *vpRef) remove(i int) {
	r.ents = append(r.ents[:i:i], r.ents[i+1:]...)
}

// put returns (evicted, ok); ok=false means the reference refuses
// (value larger than the capacity).
func (r *vpRef) put(k int, v *vpVal) (bool, bool) {
	if v.size > r.capacity {
		return false, false
	}
	if i := r.find(k); i >= 0 {
		r.remove(i)
	}
	evicted := false
	for r.capacity-r.total() < v.size {
		r.remove(len(r.ents) - 1)
		evicted = true
	}
	r.ents = append([]vpRefEntry{{k, v}}, r.ents...)
	return evicted, true
}

func (r *vpRef) get(k int) *vpVal {
	i := r.find(k)
	if i < 0 {
		return nil
	}
	e := r.ents[i]
	r.remove(i)
	r.ents = append([]vpRefEntry{e}, r.ents...)
	return e.val
}

func (r *vpRef) del(k int) *vpVal {
	i := r.find(k)
	if i < 0 {
		return nil
	}
	v := r.ents[i].val
	r.remove(i)
	return v
}

// vpResidents reads the cache's recency list (most recent first).
func vpResidents(c *Cache[int, *vpVal]) []vpRefEntry {
	var out []vpRefEntry
	c.RangeFILO(func(k int, v *vpVal) bool {
		out = append(out, vpRefEntry{k, v})
		return true
	})
	return out
}

// vpCheckConsistent: list, index, Len and Size agree with each other and
// the capacity is respected.  Returns the resident entries.
func vpCheckConsistent(c *Cache[int, *vpVal], capacity uint64, nkeys int, tag string) []vpRefEntry {
	res := vpResidents(c)
	vpAssert(c.Len() == len(res), tag+"len-equals-resident-count")
	var sum uint64
	overflow := false
	for _, e := range res {
		ns := sum + e.val.size
		overflow = vpOr(overflow, ns < sum)
		sum = ns
	}
	vpAssert(vpNot(overflow), tag+"resident-total-no-overflow")
	vpAssert(sum <= capacity, tag+"resident-total-within-capacity")
	vpAssert(c.Size() == sum, tag+"size-equals-resident-total")
	// FIFO order is the reverse of FILO order
	var fifo []int
	c.RangeFIFO(func(k int, v *vpVal) bool {
		fifo = append(fifo, k)
		return true
	})
	okRev := len(fifo) == len(res)
	if okRev {
		for i := range fifo {
			okRev = okRev && fifo[i] == res[len(res)-1-i].key
		}
	}
	vpAssert(okRev, tag+"fifo-is-reverse-of-filo")
	// index <-> list: each key is indexed iff it is resident, exactly once
	for k := 0; k < nkeys; k++ {
		cnt := 0
		var rv *vpVal
		for _, e := range res {
			if e.key == k {
				cnt++
				rv = e.val
			}
		}
		vpAssert(cnt <= 1, tag+"key-resident-at-most-once")
		el, ok := c.cache.Load(k)
		vpAssert(ok == (cnt > 0), tag+"index-iff-resident")
		if ok && cnt == 1 {
			vpAssert(el.Value.value == rv && el.Value.key == k, tag+"index-points-at-resident-entry")
		}
	}
	// the unordered Range sees exactly the resident entries
	n := 0
	c.Range(func(k int, v *vpVal) bool {
		n++
		return true
	})
	vpAssert(n == len(res), tag+"range-count")
	return res
}

func vpSameAsRef(res []vpRefEntry, ref *vpRef) bool {
	if len(res) != len(ref.ents) {
		return false
	}
	for i := range res {
		if res[i].key != ref.ents[i].key || res[i].val != ref.ents[i].val {
			return false
		}
	}
	return true
}

// VerifH_C16_sequential: ops operations chosen symbolically over nkeys
// keys; sizes and the capacity are arbitrary uint64; one Size() call of
// the history may fail.  After every operation the cache must agree
// with the reference LRU (or, after a failed operation, at least be
// consistent and usable).
func VerifH_C16_sequential() {
	nkeys := vpParam("keys", 2)
	nops := vpParam("ops", 3)
	capacity := vpU64("capacity")
	vpSizes = &vpSizeCtl{failAt: vpRange("sizeFailAt", 0, vpParam("sizecalls", 6))}
	c := NewCache[int, *vpVal](capacity)
	ref := &vpRef{capacity: capacity}
	nextID := 0
	for op := 0; op < nops; op++ {
		kind := vpRange("op", 0, 2)
		k := vpRange("key", 0, nkeys-1)
		failed := false
		switch kind {
		case 0:
			v := &vpVal{id: nextID, size: vpU64("size")}
			nextID++
			before := vpSizes.calls
			evicted, err := c.Put(k, v)
			_ = before
			if err != nil {
				vpReach("put-error")
				failed = true
				if v.size > capacity && vpSizes.failAt == 0 {
					vpReach("put-too-big")
				}
			} else {
				refEv, ok := ref.put(k, v)
				vpAssert(ok, "put-accepted-only-if-fits-capacity")
				vpAssert(evicted == refEv, "put-evicted-flag")
			}
			if err == nil && false {
				_ = evicted
			}
			if err != nil && vpSizes.failAt == 0 {
				vpAssert(v.size > capacity, "put-fails-only-when-too-big")
				failed = false // refused without touching anything: reference unchanged
			}
		case 1:
			got, err := c.Get(k)
			want := ref.get(k)
			if want == nil {
				vpAssert(err != nil, "get-missing-reports-not-found")
			} else {
				vpAssert(err == nil && got == want, "get-returns-latest-value")
			}
		case 2:
			got, ok := c.LoadAndDelete(k)
			if vpSizes.failAt != 0 && !ok && ref.find(k) >= 0 {
				vpReach("delete-error")
				failed = true
			} else {
				want := ref.del(k)
				if want == nil {
					vpAssert(!ok, "delete-missing-reports-false")
				} else {
					vpAssert(ok && got == want, "delete-returns-value")
				}
			}
		}
		// "An operation that fails leaves the cache usable": every call below
		// must return (a self-deadlock ends the path as a deadlock violation)
		res := vpCheckConsistent(c, capacity, nkeys, "")
		if failed {
			vpReach("after-failed-op")
			// resynchronise the reference with what is resident now
			ref.ents = res
		} else {
			vpAssert(vpSameAsRef(res, ref), "matches-reference-lru")
		}
	}
}

// ---------------------------------------------------------------- interleavings

type vpOpResult struct {
	kind, key int
	val       *vpVal
	got       *vpVal
	ok        bool
	evicted   bool
	err       bool
}

func vpApplyOp(c *Cache[int, *vpVal], r *vpOpResult) {
	switch r.kind {
	case 0:
		ev, err := c.Put(r.key, r.val)
		r.evicted, r.err = ev, err != nil
	case 1:
		v, err := c.Get(r.key)
		r.got, r.err = v, err != nil
	case 2:
		v, ok := c.LoadAndDelete(r.key)
		r.got, r.ok = v, ok
	}
}

func vpApplyRef(ref *vpRef, r *vpOpResult) bool {
	switch r.kind {
	case 0:
		ev, ok := ref.put(r.key, r.val)
		return ok == !r.err && (!ok || ev == r.evicted)
	case 1:
		v := ref.get(r.key)
		return (v == nil) == r.err && (v == nil || v == r.got)
	case 2:
		v := ref.del(r.key)
		return (v != nil) == r.ok && (v == nil || v == r.got)
	}
	return false
}

// VerifH_C16_concurrent: a cache pre-filled with `pre` entries, then T
// concurrent operations with context switches at every index (sync.Map)
// and mutex operation.  At quiescence list, index and size must agree
// and the outcome must equal SOME sequential order of the operations.
func VerifH_C16_concurrent() {
	nkeys := vpParam("keys", 2)
	T := vpParam("threads", 2)
	capacity := uint64(vpRange("capacity", vpParam("mincap", 1), vpParam("maxcap", 3)))
	vpSizes = &vpSizeCtl{}
	var c *Cache[int, *vpVal]
	callbacks := 0
	if vpParam("callbacks", 0) == 1 {
		// a cache with a delete callback (user code that runs inside Put /
		// LoadAndDelete when an entry leaves the cache)
		c = NewCache[int, *vpVal](capacity, WithDeleteCallback(func(k int, v *vpVal) { callbacks++ }))
		vpReach("cache-with-delete-callback")
	} else {
		c = NewCache[int, *vpVal](capacity)
	}
	ref0 := &vpRef{capacity: capacity}
	pre := vpRange("prefill", 0, vpParam("maxprefill", 1))
	id := 100
	for j := 0; j < pre; j++ {
		v := &vpVal{id: id, size: 1}
		id++
		c.Put(j, v)
		ref0.put(j, v)
	}
	ops := make([]*vpOpResult, T)
	for t := 0; t < T; t++ {
		ops[t] = &vpOpResult{kind: vpRange("kind", 0, 2), key: vpRange("key", 0, nkeys-1)}
		if ops[t].kind == 0 {
			ops[t].val = &vpVal{id: t, size: uint64(vpRange("size", 1, 2))}
		}
	}
	done := make(chan struct{}, T)
	vpOpt("preempt", vpParam("preempt", 3))
	vpOpt("schedall", 1)
	for t := 0; t < T; t++ {
		r := ops[t]
		go func() {
			vpApplyOp(c, r)
			done <- struct{}{}
		}()
	}
	for t := 0; t < T; t++ {
		<-done
	}
	vpOpt("schedall", 0)
	res := vpCheckConsistent(c, capacity, nkeys, "conc:")
	// linearizability: some order of the T operations explains results and final state
	perms := vpPerms(T)
	lin := false
	for _, p := range perms {
		ref := &vpRef{capacity: capacity, ents: append([]vpRefEntry(nil), ref0.ents...)}
		ok := true
		for _, t := range p {
			if !vpApplyRef(ref, ops[t]) {
				ok = false
				break
			}
		}
		if ok && vpSameAsRef(res, ref) {
			lin = true
			break
		}
	}
	vpAssert(lin, "conc:equals-some-sequential-order")
}

func vpPerms(n int) [][]int {
	if n == 1 {
		return [][]int{{0}}
	}
	var out [][]int
	for _, p := range vpPerms(n - 1) {
		for i := 0; i <= len(p); i++ {
			q := append(append(append([]int(nil), p[:i]...), n-1), p[i:]...)
			out = append(out, q)
		}
	}
	return out
}
