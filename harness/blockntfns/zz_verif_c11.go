package blockntfns

// C11 — each subscriber sees every block event once, in order, from its
// start.  The real SubscriptionManager (handler goroutine, per-subscriber
// ConcurrentQueue and forwarding goroutine) runs under the engine's
// scheduler against a scripted notification source.

import (
	"errors"

	"github.com/btcsuite/btcd/wire/v2"
)

type vpSource struct {
	ch     chan BlockNtfn
	height uint32 // current tip: events emitted so far are heights 1..height
	// raceEmit: the chain grows by this many blocks right after the next
	// backlog was read (the block manager commits and announces from its own
	// goroutines while a registration is in progress)
	raceEmit int
	// park: the next backlog request waits here (a slow header store)
	park chan struct{}
}

func (s *vpSource) Notifications() <-chan BlockNtfn { return s.ch }
func (s *vpSource) NotificationsSinceHeight(h uint32) ([]BlockNtfn, uint32, error) {
	if s.park != nil {
		p := s.park
		s.park = nil
		<-p
	}
	if h > s.height {
		// like the block manager: a height the chain has not reached is refused
		return nil, 0, errors.New("vp: request with a height greater than the best height known")
	}
	if h == 0 || h == s.height {
		tip := s.height
		s.grow()
		return nil, tip, nil
	}
	var out []BlockNtfn
	for i := h + 1; i <= s.height; i++ {
		out = append(out, NewBlockConnected(wire.BlockHeader{Nonce: i}, i))
	}
	tip := s.height
	s.grow()
	return out, tip, nil
}

// grow: see raceEmit.  The emitting goroutine runs until it blocks (the
// event is committed, its announcement waits for the handler).
func (s *vpSource) grow() {
	for ; s.raceEmit > 0; s.raceEmit-- {
		go s.emit()
		vpQuiesce()
		vpReach("chain-grew-while-a-backlog-was-being-read")
	}
}

func (s *vpSource) emit() {
	s.height++
	s.ch <- NewBlockConnected(wire.BlockHeader{Nonce: s.height}, s.height)
}

type vpSub struct {
	sub       *Subscription
	from      uint32 // first height it must see
	upTo      uint32 // last height emitted before its cancellation (0 = not cancelled)
	cancelled bool
	got       []uint32
	closed    bool
}

// drain reads everything that is, or becomes, available without blocking.
func (v *vpSub) drain() {
	for {
		vpQuiesce()
		select {
		case n, ok := <-v.sub.Notifications:
			if !ok {
				v.closed = true
				return
			}
			v.got = append(v.got, n.Height())
		default:
			return
		}
	}
}

func vpCheckSub(v *vpSub, finalHeight uint32, stopped bool, tag string) {
	last := finalHeight
	if v.cancelled {
		last = v.upTo
	}
	// in order, no gaps, no duplicates, from its start
	ok := true
	for i, h := range v.got {
		if h != v.from+uint32(i) {
			ok = false
		}
	}
	vpAssert(ok, tag+"events-in-emission-order-from-the-start-height-none-dropped-or-repeated")
	if !v.cancelled && !stopped {
		want := 0
		if last >= v.from {
			want = int(last-v.from) + 1
		}
		vpAssert(len(v.got) == want, tag+"live-subscriber-receives-every-event")
		vpAssert(!v.closed, tag+"live-subscription-stays-open")
	} else {
		// a cancelled / stopped subscription may lose what it had not read yet,
		// but never sees anything emitted after the cancellation
		if len(v.got) > 0 {
			vpAssert(v.got[len(v.got)-1] <= last, tag+"nothing-delivered-after-cancel-or-stop")
		}
		vpAssert(v.closed, tag+"channel-closed-after-cancel-or-stop")
	}
}

// VerifH_C11_events: up to `events` events (subscribe with or without
// backlog, emit, cancel) over two subscribers that do not read until the
// end, then optional Stop.
func VerifH_C11_events() {
	src := &vpSource{ch: make(chan BlockNtfn)}
	m := NewSubscriptionManager(src)
	m.Start()
	pre := vpRange("preEmitted", 0, 2)
	src.height = uint32(pre) // blocks that exist before anybody subscribes
	var subs []*vpSub
	nev := vpParam("events", 4)
	for ev := 0; ev < nev; ev++ {
		switch vpRange("event", 0, 2) {
		case 0: // subscribe (at most two live subscriptions, three in all)
			live := 0
			for _, v := range subs {
				if !v.cancelled {
					live++
				}
			}
			if live == 2 || len(subs) == vpParam("maxsubs", 3) {
				continue
			}
			if len(subs) == 2 {
				vpReach("subscribed-after-a-cancellation")
			}
			best := vpU32("bestHeight") // any 32-bit height
			if vpParam("races", 1) == 1 {
				src.raceEmit = vpRange("chainGrowsDuringRegistration", 0, 1)
			}
			h0 := src.height
			s, err := m.NewSubscription(best)
			src.raceEmit = 0
			if best > h0 {
				// the source refuses the backlog: the registration fails, and this
				// must not disturb anybody else (the later events show it)
				vpReach("registration-refused")
				vpAssert(err != nil && s == nil, "refused-registration-reports-an-error")
				continue
			}
			vpAssert(err == nil, "subscribe-ok")
			if err != nil {
				return
			}
			v := &vpSub{sub: s}
			if best == 0 {
				v.from = h0 + 1
			} else {
				v.from = best + 1
				vpReach("subscribed-with-backlog")
			}
			subs = append(subs, v)
		case 1: // a chain event
			src.emit() // must not block even though nobody reads
			vpReach("emitted")
		case 2: // cancel the oldest (or the newest) live subscription
			newest := vpParam("cancelnewest", 1) == 1 && vpRange("cancelNewest", 0, 1) == 1
			order := subs
			if newest {
				order = nil
				for k := len(subs) - 1; k >= 0; k-- {
					order = append(order, subs[k])
				}
			}
			for _, v := range order {
				if !v.cancelled {
					v.sub.Cancel()
					v.cancelled = true
					v.upTo = src.height
					vpReach("cancelled")
					break
				}
			}
		}
	}
	stopped := vpRange("stop", 0, 1) == 1
	if stopped {
		m.Stop()
		vpReach("stopped")
	}
	for i, v := range subs {
		v.drain()
		tag := []string{"sub0:", "sub1:", "sub2:"}[i]
		vpCheckSub(v, src.height, stopped, tag)
	}
}

// VerifH_C11_slowSubscriber: a subscriber that never reads falls more than
// a channel buffer behind; cancelling it must return, close its channel
// and must not delay or lose events for the other subscriber.
func VerifH_C11_slowSubscriber() {
	src := &vpSource{ch: make(chan BlockNtfn)}
	m := NewSubscriptionManager(src)
	m.Start()
	slow, err1 := m.NewSubscription(0)
	fast, err2 := m.NewSubscription(0)
	if err1 != nil || err2 != nil {
		vpAssert(false, "subscribe-ok")
		return
	}
	vs := &vpSub{sub: slow, from: 1}
	vf := &vpSub{sub: fast, from: 1}
	n := vpParam("burst", 23)
	for i := 0; i < n; i++ {
		src.emit()
		if i%5 == 4 {
			vf.drain() // the fast subscriber keeps up
		}
	}
	vpQuiesce()
	slow.Cancel() // must return although 'slow' never read anything
	vs.cancelled, vs.upTo = true, src.height
	vpReach("slow-subscriber-cancelled")
	src.emit()
	src.emit()
	vf.drain()
	vs.drain()
	vpCheckSub(vf, src.height, false, "fast:")
	vpCheckSub(vs, src.height, false, "slow:")
	m.Stop()
	vf.drain()
	vpAssert(vf.closed, "fast:channel-closed-after-stop")
}

// ---- chain events that include reorganisations ----

type vpEvRec struct {
	id        uint32 // the block's identity (header nonce)
	height    uint32
	connected bool
}

type vpReorgSource struct {
	ch     chan BlockNtfn
	chain  []uint32 // block ids by height-1 (the current chain above genesis)
	nextID uint32
	log    []vpEvRec // every event emitted so far, in order
}

func (s *vpReorgSource) Notifications() <-chan BlockNtfn { return s.ch }
func (s *vpReorgSource) NotificationsSinceHeight(h uint32) ([]BlockNtfn, uint32, error) {
	tip := uint32(len(s.chain))
	if h == 0 || h >= tip {
		return nil, tip, nil
	}
	var out []BlockNtfn
	for i := h + 1; i <= tip; i++ {
		out = append(out, NewBlockConnected(wire.BlockHeader{Nonce: s.chain[i-1]}, i))
	}
	return out, tip, nil
}
func (s *vpReorgSource) connect() {
	s.nextID++
	s.chain = append(s.chain, s.nextID)
	h := uint32(len(s.chain))
	s.log = append(s.log, vpEvRec{s.nextID, h, true})
	s.ch <- NewBlockConnected(wire.BlockHeader{Nonce: s.nextID}, h)
}
func (s *vpReorgSource) disconnect() {
	h := uint32(len(s.chain))
	id := s.chain[h-1]
	s.chain = s.chain[:h-1]
	var tip wire.BlockHeader
	if h >= 2 {
		tip.Nonce = s.chain[h-2]
	}
	s.log = append(s.log, vpEvRec{id, h, false})
	s.ch <- NewBlockDisconnected(wire.BlockHeader{Nonce: id}, h, tip)
}

type vpReorgSub struct {
	sub    *Subscription
	expect []vpEvRec // backlog at registration; later events are appended as they are emitted
	got    []vpEvRec
}

// VerifH_C11_reorgEvents: connect / disconnect events (reorganisations at
// or below the height a subscriber registered at) with subscribers joining
// with or without a backlog; each live subscriber must receive exactly its
// backlog followed by every event emitted after it registered, in order.
func VerifH_C11_reorgEvents() {
	src := &vpReorgSource{ch: make(chan BlockNtfn)}
	m := NewSubscriptionManager(src)
	m.Start()
	for i := vpRange("preEmitted", 0, 2); i > 0; i-- {
		src.nextID++
		src.chain = append(src.chain, src.nextID)
	}
	var subs []*vpReorgSub
	nev := vpParam("revents", 5)
	for ev := 0; ev < nev; ev++ {
		switch vpRange("event", 0, 2) {
		case 0: // subscribe
			if len(subs) == 2 {
				continue
			}
			best := uint32(vpRange("bestHeight", 0, len(src.chain)))
			s, err := m.NewSubscription(best)
			vpAssert(err == nil, "subscribe-ok")
			if err != nil {
				return
			}
			v := &vpReorgSub{sub: s}
			if best != 0 {
				for h := best + 1; h <= uint32(len(src.chain)); h++ {
					v.expect = append(v.expect, vpEvRec{src.chain[h-1], h, true})
				}
				vpReach("subscribed-with-backlog")
			}
			subs = append(subs, v)
		case 1:
			src.connect()
			for _, v := range subs {
				v.expect = append(v.expect, src.log[len(src.log)-1])
			}
		case 2:
			if len(src.chain) == 0 {
				continue
			}
			src.disconnect()
			vpReach("disconnected")
			for _, v := range subs {
				v.expect = append(v.expect, src.log[len(src.log)-1])
			}
		}
	}
	for i, v := range subs {
		for {
			vpQuiesce()
			select {
			case n := <-v.sub.Notifications:
				_, isConn := n.(*Connected)
				hdr := n.Header()
				v.got = append(v.got, vpEvRec{hdr.Nonce, n.Height(), isConn})
				continue
			default:
			}
			break
		}
		tag := "sub0:"
		if i == 1 {
			tag = "sub1:"
		}
		vpAssert(len(v.got) == len(v.expect), tag+"receives-backlog-then-every-later-event")
		for k := 0; k < len(v.got) && k < len(v.expect); k++ {
			vpAssert(v.got[k] == v.expect[k], tag+"events-are-the-emitted-ones-in-order")
		}
		if len(v.expect) > 0 {
			vpReach("events-expected")
		}
	}
	m.Stop()
}

// VerifH_C11_concurrentSubscribe: a registration (with any backlog height)
// runs concurrently with chain events emitted by the source, with context
// switches at synchronisation operations (channel operations, mutexes,
// atomics) under a preemption bound.  Whatever the interleaving, the new
// subscriber's backlog followed by its later events is gap-free and the
// existing subscriber loses nothing.
func VerifH_C11_concurrentSubscribe() {
	src := &vpSource{ch: make(chan BlockNtfn)}
	m := NewSubscriptionManager(src)
	m.Start()
	pre := vpRange("preEmitted", 1, 2)
	src.height = uint32(pre)
	old, err := m.NewSubscription(0)
	if err != nil {
		vpAssert(false, "subscribe-ok")
		return
	}
	vo := &vpSub{sub: old, from: src.height + 1}
	best := vpU32("bestHeight")
	vpAssume(best <= uint32(pre))
	nemit := vpRange("concurrentEvents", 1, vpParam("cevents", 2))
	var s2 *Subscription
	var err2 error
	heightAtReturn := uint32(0)
	done := make(chan struct{}, 2)
	vpOpt("preempt", vpParam("preempt", 2))
	vpOpt("schedall", 1)
	go func() {
		s2, err2 = m.NewSubscription(best)
		heightAtReturn = src.height
		done <- struct{}{}
	}()
	go func() {
		for k := 0; k < nemit; k++ {
			src.emit()
		}
		done <- struct{}{}
	}()
	<-done
	<-done
	vpOpt("schedall", 0)
	vpReach("registration-raced-with-events")
	vpAssert(err2 == nil && s2 != nil, "concurrent-subscribe-ok")
	if err2 != nil || s2 == nil {
		return
	}
	vn := &vpSub{sub: s2}
	vo.drain()
	vn.drain()
	vpCheckSub(vo, src.height, false, "old:")
	// the new subscriber: consecutive heights ending at the tip; with a
	// backlog request they start right above the requested height, without
	// one at a height emitted no later than the call returned
	okSeq := true
	for i := 1; i < len(vn.got); i++ {
		if vn.got[i] != vn.got[i-1]+1 {
			okSeq = false
		}
	}
	vpAssert(okSeq, "new:events-consecutive-none-dropped-or-repeated")
	if len(vn.got) > 0 {
		vpAssert(vn.got[len(vn.got)-1] == src.height, "new:events-reach-the-tip")
		vpAssert(vpImplies(best != 0, vn.got[0] == best+1), "new:backlog-starts-right-above-the-requested-height")
		vpAssert(vpImplies(best == 0, vn.got[0] > uint32(pre) && vn.got[0] <= heightAtReturn+1), "new:no-backlog-for-height-zero")
	} else {
		// nothing delivered: only if nothing was due
		vpAssert(vpOr(vpAnd(best != 0, best == src.height), vpAnd(best == 0, heightAtReturn == src.height)), "new:nothing-delivered-only-if-nothing-due")
	}
	vpAssert(!vn.closed, "new:live-subscription-stays-open")
}

// VerifH_C11_stopDuringRegistration: Stop is called while the handler is
// busy registering a client (the backlog read takes its time).  The
// registering caller is released with the shutdown error, Stop returns once
// the backlog read is over, and the live subscriber's channel is closed.
func VerifH_C11_stopDuringRegistration() {
	src := &vpSource{ch: make(chan BlockNtfn)}
	m := NewSubscriptionManager(src)
	m.Start()
	src.height = uint32(vpRange("preEmitted", 0, 2))
	a, err := m.NewSubscription(0)
	if err != nil {
		vpAssert(false, "subscribe-ok")
		return
	}
	va := &vpSub{sub: a, from: src.height + 1}
	if vpRange("eventBefore", 0, 1) == 1 {
		src.emit()
	}
	park := make(chan struct{})
	src.park = park
	var err2 error
	var s2 *Subscription
	regDone := make(chan struct{})
	go func() {
		s2, err2 = m.NewSubscription(uint32(vpRange("bestHeight", 0, int(src.height))))
		close(regDone)
	}()
	vpQuiesce() // the handler now waits inside the backlog read
	stopDone := make(chan struct{})
	go func() {
		m.Stop()
		close(stopDone)
	}()
	vpQuiesce()
	vpReach("stop-requested-during-a-registration")
	close(park) // the backlog read finishes
	<-regDone   // the registering caller is released
	<-stopDone  // Stop returns (a hang shows up as a deadlock)
	if err2 == nil && s2 != nil {
		// the registration may still have gone through: then its channel is closed as well
		v2 := &vpSub{sub: s2}
		v2.drain()
		vpAssert(v2.closed, "new:channel-closed-after-stop")
	}
	va.drain()
	vpAssert(va.closed, "live:channel-closed-after-stop")
	ok := true
	for i, h := range va.got {
		if h != va.from+uint32(i) {
			ok = false
		}
	}
	vpAssert(ok, "live:events-in-emission-order-none-repeated")
}
