package headerfs

import (
	"github.com/btcsuite/btcd/chainhash/v2"
	"github.com/btcsuite/btcd/wire/v2"
)

func vpOpenFilterStore(db *vpDB) *filterHeaderStore {
	s, err := NewFilterHeaderStore("d", db, RegularFilter, vpParams(), nil)
	vpAssert(err == nil, "filter-open-succeeds")
	if err != nil {
		return nil
	}
	return s.(*filterHeaderStore)
}

func vpNewFilterHash(w *vpWorld, label string) chainhash.Hash {
	var h chainhash.Hash
	copy(h[:], vpBytes(label, 32))
	w.admitValue(h)
	return h
}

// vpCheckFilterStore compares every read method of the filter-header
// store with the slice model (index = height); blocks[h] is the block
// header at that height.
func vpCheckFilterStore(fs *filterHeaderStore, model []chainhash.Hash, blocks []wire.BlockHeader) {
	tipH := len(model) - 1
	got, height, err := fs.ChainTip()
	vpAssert(err == nil, "ftip-readable")
	if err != nil {
		return
	}
	vpAssert(int(height) == tipH, "ftip-height")
	vpAssert(*got == model[tipH], "ftip-header")
	for h := 0; h <= tipH; h++ {
		g, err := fs.FetchHeaderByHeight(uint32(h))
		vpAssert(err == nil, "f-by-height-readable")
		if err == nil {
			vpAssert(*g == model[h], "f-by-height-content")
		}
		bh := blocks[h].BlockHash()
		g2, err := fs.FetchHeader(&bh)
		vpAssert(err == nil, "f-by-hash-found")
		if err == nil {
			vpAssert(*g2 == model[h], "f-by-hash-content")
		}
	}
	_, err = fs.FetchHeaderByHeight(uint32(tipH + 1))
	vpAssert(err != nil, "f-beyond-tip-not-found")
	n := tipH
	if n > 2 {
		n = 2
	}
	th := blocks[tipH].BlockHash()
	anc, start, err := fs.FetchHeaderAncestors(uint32(n), &th)
	vpAssert(err == nil, "f-ancestors-readable")
	if err == nil {
		vpAssert(vpAnd(int(start) == tipH-n, len(anc) == n+1), "f-ancestors-shape")
		if len(anc) == n+1 {
			ok := true
			for i := 0; i <= n; i++ {
				ok = vpAnd(ok, anc[i] == model[tipH-n+i])
			}
			vpAssert(ok, "f-ancestors-content")
		}
	}
	// ranges that reach below genesis or above the filter tip are refused,
	// not answered with something else
	_, _, berr := fs.FetchHeaderAncestors(uint32(tipH+1), &th)
	vpAssert(berr != nil, "f-ancestors-below-genesis-refused")
	if tipH+1 < len(blocks) {
		// the shared block index knows this hash, the filter store does not reach it
		above := blocks[tipH+1].BlockHash()
		_, _, aerr := fs.FetchHeaderAncestors(0, &above)
		vpReach("block-index-ahead-of-the-filter-store")
		vpAssert(aerr != nil, "f-ancestors-of-a-block-above-the-filter-tip-refused")
	}
}

// VerifH_C07_filterOps: the block store holds nb headers above genesis;
// k operations (append batch 0..2 / roll back last / reopen) on the
// filter-header store never take it above the block tip.
func VerifH_C07_filterOps() {
	vpResetEnv()
	db := vpReadyDB()
	w := &vpWorld{samePrefix: vpBool("samePrefix"), zeroFirst: vpBool("firstPrefixZero")}
	w.prepareGenesis()
	params := vpParams()
	bs := vpOpenBlockStore(db, params)
	if bs == nil {
		return
	}
	blocks := []wire.BlockHeader{vpGenesisHeader()}
	nb := vpParam("blocks", 3)
	var batch []BlockHeader
	prev := blocks[0].BlockHash()
	for j := 1; j <= nb; j++ {
		h := vpNewHeader(prev)
		prev = h.BlockHash()
		w.admit(prev)
		hc := h
		batch = append(batch, BlockHeader{BlockHeader: &hc, Height: uint32(j)})
		blocks = append(blocks, h)
	}
	if err := bs.WriteHeaders(batch...); err != nil {
		vpAssert(false, "block-setup-append")
		return
	}
	fs := vpOpenFilterStore(db)
	if fs == nil {
		return
	}
	g0, _, err := fs.ChainTip()
	if err != nil {
		vpAssert(false, "filter-genesis-tip")
		return
	}
	model := []chainhash.Hash{*g0}
	vpCheckFilterStore(fs, model, blocks)

	nops := vpParam("ops", 3)
	for op := 0; op < nops; op++ {
		switch vpRange("op", 0, 2) {
		case 0:
			room := nb - (len(model) - 1)
			maxk := 2
			if room < maxk {
				maxk = room
			}
			k := vpRange("batch", 0, maxk)
			vpReach("f-append")
			hdrs := make([]FilterHeader, k)
			for j := 0; j < k; j++ {
				hh := len(model) + j
				hdrs[j] = FilterHeader{HeaderHash: blocks[hh].BlockHash(), FilterHash: vpNewFilterHash(w, "fh"), Height: uint32(hh)}
			}
			err := fs.WriteHeaders(hdrs...)
			vpAssert(err == nil, "f-append-ok")
			if err != nil {
				return
			}
			for j := 0; j < k; j++ {
				model = append(model, hdrs[j].FilterHash)
			}
		case 1:
			if len(model) < 2 {
				// past genesis: refused, and the store answers as before
				vpReach("f-rollback-past-genesis")
				g := blocks[0].BlockHash()
				_, err := fs.RollbackLastBlock(&g)
				vpAssert(err != nil, "f-rollback-past-genesis-refused")
				vpCheckFilterStore(fs, model, blocks)
				continue
			}
			vpReach("f-rollback")
			newTipH := len(model) - 2
			newTip := blocks[newTipH].BlockHash()
			stamp, err := fs.RollbackLastBlock(&newTip)
			vpAssert(err == nil, "f-rollback-ok")
			if err != nil {
				return
			}
			vpAssert(vpAnd(int(stamp.Height) == newTipH, stamp.Hash == model[newTipH]), "f-rollback-stamp")
			model = model[:newTipH+1]
		case 2:
			vpReach("f-reopen")
			fs = vpOpenFilterStore(db)
			if fs == nil {
				return
			}
		}
		vpCheckFilterStore(fs, model, blocks)
	}
}
