package headerfs

import (
	"github.com/btcsuite/btcd/chainhash/v2"
	"github.com/btcsuite/btcd/wire/v2"
)

// vpPrepareBlockStore builds a block store with n headers above genesis
// and puts the file offset into one of the three regimes real histories
// produce: just opened (offset 0), after an append (offset = size), or
// after a rollback (offset beyond the size).
func vpPrepareBlockStore(db *vpDB, w *vpWorld, n int, regime int) (*blockHeaderStore, []wire.BlockHeader) {
	w.prepareGenesis() // zeroFirst is false here: the all-zero index prefix is the ops harnesses' case
	params := vpParams()
	st := vpOpenBlockStore(db, params)
	if st == nil {
		return nil, nil
	}
	model := []wire.BlockHeader{vpGenesisHeader()}
	extra := 0
	if regime == 2 {
		extra = 1
	}
	var batch []BlockHeader
	prev := model[0].BlockHash()
	for j := 1; j <= n+extra; j++ {
		h := vpNewHeader(prev)
		prev = h.BlockHash()
		w.admit(prev)
		hc := h
		batch = append(batch, BlockHeader{BlockHeader: &hc, Height: uint32(j)})
		model = append(model, h)
	}
	if len(batch) > 0 {
		if err := st.WriteHeaders(batch...); err != nil {
			vpAssert(false, "setup-append")
			return nil, nil
		}
	}
	switch regime {
	case 0:
		st = vpOpenBlockStore(db, params)
	case 2:
		if _, err := st.RollbackBlockHeaders(1); err != nil {
			vpAssert(false, "setup-rollback")
			return nil, nil
		}
		model = model[:len(model)-1]
	}
	return st, model
}

// VerifH_C07_appendFault: an append that reports failure (one injected
// file or database error, a failed Write may have written any prefix)
// leaves every read answer as it was before the call, also after a
// following successful append and after reopening.
func VerifH_C07_appendFault() {
	vpResetEnv()
	db := vpReadyDB()
	w := &vpWorld{samePrefix: false}
	n := vpRange("history", 0, vpParam("history", 2))
	regime := vpRange("regime", 0, 2)
	st, model := vpPrepareBlockStore(db, w, n, regime)
	if st == nil {
		return
	}
	k := vpRange("batch", 1, 2)
	hdrs := make([]BlockHeader, k)
	prev := model[len(model)-1].BlockHash()
	var added []chainhash.Hash
	for j := 0; j < k; j++ {
		h := vpNewHeader(prev)
		prev = h.BlockHash()
		w.admit(prev)
		added = append(added, prev)
		hc := h
		hdrs[j] = BlockHeader{BlockHeader: &hc, Height: uint32(len(model) + j)}
	}
	// inject exactly one failure among the durable steps of this call
	vpFault.step = 0
	vpFault.failAt = vpRange("failAt", 1, 3)
	part := vpRange("failPartClass", 0, 2) // 0 bytes, 1 byte, all but one byte
	switch part {
	case 0:
		vpFault.failPart = 0
	case 1:
		vpFault.failPart = 1
	case 2:
		vpFault.failPart = 80*k - 1
	}
	err := st.WriteHeaders(hdrs...)
	vpFault.failAt = 0
	if err == nil {
		// the failure point was beyond the steps of this call
		vpReach("no-fault-hit")
		for j := 0; j < k; j++ {
			model = append(model, *hdrs[j].BlockHeader)
		}
		vpCheckBlockStore(st, model, nil)
		return
	}
	vpReach("append-failed")
	// KF-C07-seek0 / KF-C07-stalepos: appendRaw truncates back to the
	// file *offset*, which is 0 right after opening and stale after a rollback.
	kf := "KF-C07-partial-write-truncates-to-stale-offset"
	kfCond := vpAnd(vpFault.log[0] == "write" && vpFault.step >= 1 && len(vpFault.log) > 0, true)
	_ = kfCond
	vpCheckBlockStoreKF(st, model, added, kf, regime != 1 && part != 0)
}

// vpCheckBlockStoreKF is vpCheckBlockStore with the main assertions
// tagged with a known-finding discriminator.
func vpCheckBlockStoreKF(st *blockHeaderStore, model []wire.BlockHeader, removed []chainhash.Hash, kf string, kfCond bool) {
	tipH := len(model) - 1
	hdr, height, err := st.ChainTip()
	vpAssertKF(err == nil, "after-failed-append:tip-readable", kf, kfCond)
	if err != nil {
		return
	}
	vpAssertKF(vpAnd(int(height) == tipH, *hdr == model[tipH]), "after-failed-append:tip", kf, kfCond)
	for h := 0; h <= tipH; h++ {
		got, err := st.FetchHeaderByHeight(uint32(h))
		vpAssertKF(err == nil, "after-failed-append:by-height-readable", kf, kfCond)
		if err != nil {
			continue
		}
		vpAssertKF(*got == model[h], "after-failed-append:by-height-content", kf, kfCond)
		hash := model[h].BlockHash()
		hh2, err := st.HeightFromHash(&hash)
		vpAssertKF(vpAnd(err == nil, int(hh2) == h), "after-failed-append:height-from-hash", kf, kfCond)
	}
	_, err = st.FetchHeaderByHeight(uint32(tipH + 1))
	vpAssertKF(err != nil, "after-failed-append:beyond-tip-not-found", kf, kfCond)
	for i := range removed {
		rh := removed[i]
		_, err = st.HeightFromHash(&rh)
		vpAssertKF(err != nil, "after-failed-append:failed-headers-not-indexed", kf, kfCond)
	}
	// the store stays usable: a following append reads back correctly
	prev := model[tipH].BlockHash()
	h := vpNewHeader(prev)
	hc := h
	vpAssume(h.BlockHash() != chainhash.Hash{})
	err = st.WriteHeaders(BlockHeader{BlockHeader: &hc, Height: uint32(tipH + 1)})
	vpAssertKF(err == nil, "after-failed-append:next-append-ok", kf, kfCond)
	if err != nil {
		return
	}
	got, hgt, err := st.ChainTip()
	vpAssertKF(err == nil, "after-failed-append:next-tip-readable", kf, kfCond)
	if err == nil {
		vpAssertKF(vpAnd(int(hgt) == tipH+1, *got == h), "after-failed-append:next-tip", kf, kfCond)
	}
}
