package headerfs

// C07 — header stores behave as an append/rollback log and survive
// reopening (differential against a plain slice model).

import (
	"time"

	"github.com/btcsuite/btcd/blockchain"
	"github.com/btcsuite/btcd/chaincfg/v2"
	"github.com/btcsuite/btcd/chainhash/v2"
	"github.com/btcsuite/btcd/wire/v2"
)

// vpGenesisNonce: natively searched so that the genesis hash has (or has
// not) the all-zero index prefix the run asks for (prepareGenesis).
var vpGenesisNonce uint32 = 2

func vpGenesisHeader() wire.BlockHeader {
	return wire.BlockHeader{
		Version:   1,
		Timestamp: time.Unix(1296688602, 0),
		Bits:      0x207fffff,
		Nonce:     vpGenesisNonce,
	}
}

// prepareGenesis admits the genesis hash - the first hash in play - before
// any store is opened, so that whether its index prefix is 0x0000 is the
// run's explicit input (zeroFirst) rather than left to the hash model.
func (w *vpWorld) prepareGenesis() {
	w.zeroAsked = true
	vpGenesisNonce = 2
	if !vpSymbolic() {
		for n := uint32(0); n < 1<<24; n++ {
			vpGenesisNonce = n
			g := vpGenesisHeader()
			hh := g.BlockHash()
			if (hh[0] == 0 && hh[1] == 0) == w.zeroFirst {
				break
			}
		}
	}
	g := vpGenesisHeader()
	w.admit(g.BlockHash())
}

func vpParams() *chaincfg.Params {
	g := vpGenesisHeader()
	gh := g.BlockHash()
	return &chaincfg.Params{
		Name:         "vp",
		GenesisBlock: &wire.MsgBlock{Header: g},
		GenesisHash:  &gh,
	}
}

// vpWorld tracks every hash the harness has created so that the
// collision-freeness assumptions can be stated once per new hash.
type vpWorld struct {
	hashes     []chainhash.Hash
	samePrefix bool
	noPrefix   int // leading entries exempt from the prefix regime (the zero hash)
	// zeroAsked/zeroFirst: whether the first hash in play has the index prefix
	// 0x0000 is an input of its own (so that a native replay can search for
	// a nonce with that outcome)
	zeroAsked, zeroFirst bool
}

// admitValue: a digest that is never used as an index key (a filter
// header): only distinctness from the other digests is assumed.
func (w *vpWorld) admitValue(h chainhash.Hash) {
	ok := true
	for _, o := range w.hashes {
		ok = vpAnd(ok, h != o)
	}
	vpAssume(ok)
}

// admit states the assumptions about a freshly created hash: it differs
// from every earlier one (SHA-256 collision / cycle freeness) and its
// 2-byte index prefix is either always shared or never shared with the
// earlier ones (two regimes instead of every partition).
func (w *vpWorld) admit(h chainhash.Hash) {
	vpWorldCur = w
	if len(w.hashes) == 0 {
		// no digest is the all-zero value (PrevBlock of genesis)
		w.hashes = append(w.hashes, chainhash.Hash{})
		w.noPrefix = 1
	}
	ok := true
	for i, o := range w.hashes {
		ok = vpAnd(ok, h != o)
		if i < w.noPrefix {
			continue
		}
		same := vpAnd(h[0] == o[0], h[1] == o[1])
		if w.samePrefix {
			ok = vpAnd(ok, same)
		} else {
			ok = vpAnd(ok, vpNot(same))
		}
	}
	if w.zeroAsked && len(w.hashes) == w.noPrefix {
		ok = vpAnd(ok, vpAnd(h[0] == 0, h[1] == 0) == w.zeroFirst)
	}
	vpAssume(ok)
	w.hashes = append(w.hashes, h)
}

// vpWorldCur: the world the current harness run admits its hashes to.
var vpWorldCur *vpWorld

func vpNewHeader(prev chainhash.Hash) wire.BlockHeader {
	h := wire.BlockHeader{
		Version:   1,
		PrevBlock: prev,
		Timestamp: time.Unix(int64(vpU32("hdr.ts")), 0),
		Bits:      vpU32("hdr.bits"),
		Nonce:     vpU32("hdr.nonce"),
	}
	if !vpSymbolic() && vpWorldCur != nil {
		// On a native replay the real SHA-256 decides the index prefix: search
		// for a nonce whose hash is in the regime the counterexample assumes.
		w := vpWorldCur
		for n := uint32(0); n < 1<<24; n++ {
			h.Nonce = n
			hh := h.BlockHash()
			ok := true
			for i, o := range w.hashes {
				if hh == o {
					ok = false
				}
				if i >= w.noPrefix && (hh[0] == o[0] && hh[1] == o[1]) != w.samePrefix {
					ok = false
				}
			}
			first := len(w.hashes) == w.noPrefix || len(w.hashes) == 0
			if w.zeroAsked && first && (hh[0] == 0 && hh[1] == 0) != w.zeroFirst {
				ok = false
			}
			if ok {
				break
			}
		}
	}
	return h
}

// vpRefLocator is the reference block locator: the hash itself, then
// steps of 1 for the first ten entries and doubling afterwards, always
// ending at genesis.
func vpRefLocator(model []wire.BlockHeader, height int) []chainhash.Hash {
	var out []chainhash.Hash
	out = append(out, model[height].BlockHash())
	if height == 0 {
		return out
	}
	dec := 1
	h := height
	for h > 0 && len(out) < wire.MaxBlockLocatorsPerMsg {
		if len(out) > 10 {
			dec *= 2
		}
		if dec > h {
			h = 0
		} else {
			h -= dec
		}
		out = append(out, model[h].BlockHash())
	}
	return out
}

func vpSameLocator(loc blockchain.BlockLocator, ref []chainhash.Hash) bool {
	if len(loc) != len(ref) {
		return false
	}
	ok := true
	for i := range ref {
		ok = vpAnd(ok, *loc[i] == ref[i])
	}
	return ok
}

// vpCheckBlockStore compares every read method with the slice model.
func vpCheckBlockStore(st *blockHeaderStore, model []wire.BlockHeader, removed []chainhash.Hash) {
	tipH := len(model) - 1
	hdr, height, err := st.ChainTip()
	vpAssert(err == nil, "tip-readable")
	if err != nil {
		return
	}
	vpAssert(int(height) == tipH, "tip-height")
	vpAssert(*hdr == model[tipH], "tip-header")

	for h := 0; h <= tipH; h++ {
		got, err := st.FetchHeaderByHeight(uint32(h))
		vpAssert(err == nil, "by-height-readable")
		if err != nil {
			continue
		}
		vpAssert(*got == model[h], "by-height-content")

		hash := model[h].BlockHash()
		got2, hh, err := st.FetchHeader(&hash)
		vpAssert(err == nil, "by-hash-found")
		if err == nil {
			vpAssert(int(hh) == h, "by-hash-height")
			vpAssert(*got2 == model[h], "by-hash-content")
		}
		hh2, err := st.HeightFromHash(&hash)
		vpAssert(vpAnd(err == nil, int(hh2) == h), "height-from-hash")
	}
	_, err = st.FetchHeaderByHeight(uint32(tipH + 1))
	vpAssert(err != nil, "beyond-tip-not-found")

	for i := range removed {
		rh := removed[i]
		// all hashes in the world are pairwise distinct (vpWorld.admit),
		// so a removed hash is never live again in this harness
		_, _, err := st.FetchHeader(&rh)
		vpAssert(err != nil, "rolled-back-not-found")
		_, err = st.HeightFromHash(&rh)
		vpAssert(err != nil, "rolled-back-height-not-found")
	}

	// ancestors of the tip
	tipHash := model[tipH].BlockHash()
	n := tipH
	if n > 2 {
		n = 2
	}
	anc, start, err := st.FetchHeaderAncestors(uint32(n), &tipHash)
	vpAssert(err == nil, "ancestors-readable")
	if err == nil {
		vpAssert(vpAnd(int(start) == tipH-n, len(anc) == n+1), "ancestors-shape")
		if len(anc) == n+1 {
			ok := true
			for i := 0; i <= n; i++ {
				ok = vpAnd(ok, anc[i] == model[tipH-n+i])
			}
			vpAssert(ok, "ancestors-content")
		}
	}

	// a range reaching below genesis is refused, not answered with something else
	_, _, berr := st.FetchHeaderAncestors(uint32(tipH+1), &tipHash)
	vpAssert(berr != nil, "ancestors-below-genesis-refused")

	loc, err := st.LatestBlockLocator()
	vpAssert(vpAnd(err == nil, vpSameLocator(loc, vpRefLocator(model, tipH))), "latest-locator")
	mid := tipH / 2
	midHash := model[mid].BlockHash()
	loc2, err := st.BlockLocatorFromHash(&midHash)
	vpAssert(vpAnd(err == nil, vpSameLocator(loc2, vpRefLocator(model, mid))), "locator-from-hash")
}

func vpOpenBlockStore(db *vpDB, params *chaincfg.Params) *blockHeaderStore {
	s, err := NewBlockHeaderStore("d", db, params)
	vpAssert(err == nil, "open-succeeds")
	if err != nil {
		return nil
	}
	return s.(*blockHeaderStore)
}

// VerifH_C07_blockOps: k operations (append batch 0..2 / rollback 0..3 /
// close+reopen) on a fresh block-header store; after every operation all
// read methods must agree with the slice model.
func VerifH_C07_blockOps() {
	vpResetEnv()
	db := vpReadyDB()
	w := &vpWorld{samePrefix: vpBool("samePrefix"), zeroFirst: vpBool("firstPrefixZero")}
	if w.zeroFirst {
		vpReach("a-hash-with-the-all-zero-index-prefix")
	}
	w.prepareGenesis()
	params := vpParams()
	st := vpOpenBlockStore(db, params)
	if st == nil {
		return
	}
	model := []wire.BlockHeader{vpGenesisHeader()}
	var removed []chainhash.Hash
	vpCheckBlockStore(st, model, removed)

	nops := vpParam("ops", 3)
	maxBatch := vpParam("batch", 2)
	for op := 0; op < nops; op++ {
		switch vpRange("op", 0, 2) {
		case 0:
			k := vpRange("batch", 0, maxBatch)
			vpReach("append")
			hdrs := make([]BlockHeader, k)
			prev := model[len(model)-1].BlockHash()
			for j := 0; j < k; j++ {
				h := vpNewHeader(prev)
				prev = h.BlockHash()
				w.admit(prev)
				hc := h
				hdrs[j] = BlockHeader{BlockHeader: &hc, Height: uint32(len(model) + j)}
			}
			err := st.WriteHeaders(hdrs...)
			vpAssert(err == nil, "append-ok")
			if err != nil {
				return
			}
			for j := 0; j < k; j++ {
				model = append(model, *hdrs[j].BlockHeader)
			}
		case 1:
			n := vpRange("rollback", 0, 3)
			vpReach("rollback")
			stamp, err := st.RollbackBlockHeaders(uint32(n))
			if n > len(model)-1 {
				vpReach("rollback-past-genesis")
				vpAssert(err != nil, "rollback-past-genesis-refused")
			} else {
				vpAssert(err == nil, "rollback-ok")
				if err != nil {
					return
				}
				if n > 0 {
					newTip := len(model) - 1 - n
					vpAssert(vpAnd(int(stamp.Height) == newTip, stamp.Hash == model[newTip].BlockHash()), "rollback-stamp")
					for _, r := range model[newTip+1:] {
						removed = append(removed, r.BlockHash())
					}
					model = model[:newTip+1]
				}
			}
		case 2:
			vpReach("reopen")
			st = vpOpenBlockStore(db, params)
			if st == nil {
				return
			}
		}
		vpCheckBlockStore(st, model, removed)
	}
}
