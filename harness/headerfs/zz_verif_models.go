package headerfs

// Environment models used by the headerfs harnesses: an in-memory file
// system with POSIX O_APPEND semantics and an in-memory walletdb.DB with
// atomic transactions.  Every mutating call is a "durable step" that can
// fail, or be the point at which the process dies (vpCrash panic).
//
// The same Go code runs under the symbolic executor and natively when a
// counterexample is replayed.

import (
	"bytes"
	"errors"
	"io"
	"io/fs"
	"os"
	"time"

	"github.com/btcsuite/btcwallet/walletdb"
)

// ---------------------------------------------------------------- faults

type vpCrash struct{ step int }

type vpFaultCtl struct {
	step     int // number of durable steps executed so far
	crashAt  int // crash when about to execute this step (1-based); 0 = never
	torn     int // for a Write at the crash step: bytes that reach the disk
	failAt   int // this step reports an error (1-based); 0 = never
	failPart int // for a failing Write: bytes written before the error
	log      []string
}

var vpFault = &vpFaultCtl{}

var errVpInjected = errors.New("vp: injected I/O error")

// next registers a durable step. It returns (crash, fail).
func (c *vpFaultCtl) next(what string) (bool, bool) {
	c.step++
	c.log = append(c.log, what)
	return c.crashAt != 0 && c.step == c.crashAt, c.failAt != 0 && c.step == c.failAt
}

// ---------------------------------------------------------------- files

type vpFileData struct {
	name string
	data []byte
}

type vpFS struct {
	files []*vpFileData
}

var vpDisk = &vpFS{}

func (d *vpFS) lookup(name string) *vpFileData {
	for _, f := range d.files {
		if f.name == name {
			return f
		}
	}
	return nil
}

type vpFile struct {
	d      *vpFileData
	pos    int64
	closed bool
}

// vpOpenFile replaces os.OpenFile in the code under test (flags are the
// ones headerfs uses: O_RDWR|O_APPEND|O_CREATE).
func vpOpenFile(name string, flag int, perm os.FileMode) (File, error) {
	d := vpDisk.lookup(name)
	if d == nil {
		d = &vpFileData{name: name}
		vpDisk.files = append(vpDisk.files, d)
	}
	return &vpFile{d: d}, nil
}

func vpOsTruncate(name string, size int64) error {
	d := vpDisk.lookup(name)
	if d == nil {
		return errors.New("vp: file does not exist")
	}
	f := &vpFile{d: d}
	return f.Truncate(size)
}

func vpOsRemove(name string) error {
	for i, f := range vpDisk.files {
		if f.name == name {
			vpDisk.files = append(vpDisk.files[:i], vpDisk.files[i+1:]...)
			return nil
		}
	}
	return errors.New("vp: file does not exist")
}

func (f *vpFile) Read(p []byte) (int, error) {
	if f.pos >= int64(len(f.d.data)) {
		return 0, io.EOF
	}
	n := copy(p, f.d.data[f.pos:])
	f.pos += int64(n)
	return n, nil
}

func (f *vpFile) ReadAt(p []byte, off int64) (int, error) {
	if off < 0 {
		return 0, errors.New("vp: negative offset")
	}
	if off >= int64(len(f.d.data)) {
		return 0, io.EOF
	}
	n := copy(p, f.d.data[off:])
	if n < len(p) {
		return n, io.EOF
	}
	return n, nil
}

// Write appends (O_APPEND): the data always goes to the end of the file
// and the offset is left at the new end.
func (f *vpFile) Write(p []byte) (int, error) {
	crash, fail := vpFault.next("write")
	if crash {
		k := vpFault.torn
		if k >= len(p) {
			k = len(p) - 1
		}
		if k > 0 {
			f.d.data = append(f.d.data, p[:k]...)
		}
		panic(vpCrash{vpFault.step})
	}
	if fail {
		k := vpFault.failPart
		if k >= len(p) {
			k = len(p) - 1
		}
		if k < 0 {
			k = 0
		}
		f.d.data = append(f.d.data, p[:k]...)
		f.pos = int64(len(f.d.data))
		return k, errVpInjected
	}
	f.d.data = append(f.d.data, p...)
	f.pos = int64(len(f.d.data))
	return len(p), nil
}

func (f *vpFile) Seek(offset int64, whence int) (int64, error) {
	switch whence {
	case io.SeekStart:
		f.pos = offset
	case io.SeekCurrent:
		f.pos += offset
	case io.SeekEnd:
		f.pos = int64(len(f.d.data)) + offset
	}
	return f.pos, nil
}

func (f *vpFile) Close() error {
	f.closed = true
	return nil
}

func (f *vpFile) Sync() error { return nil }

func (f *vpFile) Name() string { return f.d.name }

// Truncate has ftruncate semantics: shrinking cuts the tail, growing
// fills with zeros, a negative size is EINVAL; the offset is unchanged.
func (f *vpFile) Truncate(size int64) error {
	if size < 0 {
		return errors.New("vp: truncate: invalid argument")
	}
	crash, fail := vpFault.next("truncate")
	if crash {
		panic(vpCrash{vpFault.step})
	}
	if fail {
		return errVpInjected
	}
	if size <= int64(len(f.d.data)) {
		f.d.data = f.d.data[:size:size]
		return nil
	}
	for int64(len(f.d.data)) < size {
		f.d.data = append(f.d.data, 0)
	}
	return nil
}

type vpFileInfo struct {
	name string
	size int64
}

func (i vpFileInfo) Name() string       { return i.name }
func (i vpFileInfo) Size() int64        { return i.size }
func (i vpFileInfo) Mode() fs.FileMode  { return 0644 }
func (i vpFileInfo) ModTime() time.Time { return time.Time{} }
func (i vpFileInfo) IsDir() bool        { return false }
func (i vpFileInfo) Sys() interface{}   { return nil }

func (f *vpFile) Stat() (os.FileInfo, error) {
	return vpFileInfo{name: f.d.name, size: int64(len(f.d.data))}, nil
}

// ---------------------------------------------------------------- walletdb

type vpBucket struct {
	keys    [][]byte
	vals    [][]byte
	subKeys [][]byte
	subs    []*vpBucket
	// autoSub: every 2-byte sub-bucket exists (materialised on demand);
	// stands for the 65536 buckets ensureIndexSubBuckets pre-creates.
	autoSub bool
	seq     uint64
	tx      *vpTx
}

func (b *vpBucket) clone() *vpBucket {
	nb := &vpBucket{autoSub: b.autoSub, seq: b.seq}
	for i := range b.keys {
		nb.keys = append(nb.keys, b.keys[i])
		nb.vals = append(nb.vals, b.vals[i])
	}
	for i := range b.subs {
		nb.subKeys = append(nb.subKeys, b.subKeys[i])
		nb.subs = append(nb.subs, b.subs[i].clone())
	}
	return nb
}

func (b *vpBucket) setTx(tx *vpTx) {
	b.tx = tx
	for _, s := range b.subs {
		s.setTx(tx)
	}
}

func (b *vpBucket) sub(key []byte) *vpBucket {
	for i, k := range b.subKeys {
		if bytes.Equal(k, key) {
			return b.subs[i]
		}
	}
	if b.autoSub && len(key) == 2 {
		nb := &vpBucket{tx: b.tx}
		b.subKeys = append(b.subKeys, append([]byte(nil), key...))
		b.subs = append(b.subs, nb)
		return nb
	}
	return nil
}

func (b *vpBucket) NestedReadBucket(key []byte) walletdb.ReadBucket {
	s := b.sub(key)
	if s == nil {
		return nil
	}
	return s
}

func (b *vpBucket) NestedReadWriteBucket(key []byte) walletdb.ReadWriteBucket {
	s := b.sub(key)
	if s == nil {
		return nil
	}
	return s
}

func (b *vpBucket) ForEach(f func(k, v []byte) error) error {
	for i := range b.keys {
		if err := f(b.keys[i], b.vals[i]); err != nil {
			return err
		}
	}
	for i := range b.subKeys {
		if err := f(b.subKeys[i], nil); err != nil {
			return err
		}
	}
	return nil
}

func (b *vpBucket) Get(key []byte) []byte {
	for i, k := range b.keys {
		if bytes.Equal(k, key) {
			return append([]byte{}, b.vals[i]...)
		}
	}
	return nil
}

func (b *vpBucket) Sequence() uint64 { return b.seq }

func (b *vpBucket) CreateBucket(key []byte) (walletdb.ReadWriteBucket, error) {
	if len(key) == 0 {
		return nil, walletdb.ErrBucketNameRequired
	}
	if b.sub(key) != nil {
		return nil, walletdb.ErrBucketExists
	}
	nb := &vpBucket{tx: b.tx}
	b.subKeys = append(b.subKeys, append([]byte(nil), key...))
	b.subs = append(b.subs, nb)
	return nb, nil
}

func (b *vpBucket) CreateBucketIfNotExists(key []byte) (walletdb.ReadWriteBucket, error) {
	if len(key) == 0 {
		return nil, walletdb.ErrBucketNameRequired
	}
	if s := b.sub(key); s != nil {
		return s, nil
	}
	return b.CreateBucket(key)
}

func (b *vpBucket) DeleteNestedBucket(key []byte) error {
	for i, k := range b.subKeys {
		if bytes.Equal(k, key) {
			b.subKeys = append(b.subKeys[:i], b.subKeys[i+1:]...)
			b.subs = append(b.subs[:i], b.subs[i+1:]...)
			return nil
		}
	}
	return walletdb.ErrBucketNotFound
}

func (b *vpBucket) Put(key, value []byte) error {
	if len(key) == 0 {
		return walletdb.ErrKeyRequired
	}
	if b.tx != nil && !b.tx.writable {
		return walletdb.ErrTxNotWritable
	}
	for i, k := range b.keys {
		if bytes.Equal(k, key) {
			b.vals[i] = append([]byte{}, value...)
			return nil
		}
	}
	b.keys = append(b.keys, append([]byte{}, key...))
	b.vals = append(b.vals, append([]byte{}, value...))
	return nil
}

func (b *vpBucket) Delete(key []byte) error {
	if b.tx != nil && !b.tx.writable {
		return walletdb.ErrTxNotWritable
	}
	for i, k := range b.keys {
		if bytes.Equal(k, key) {
			b.keys = append(b.keys[:i:i], b.keys[i+1:]...)
			b.vals = append(b.vals[:i:i], b.vals[i+1:]...)
			return nil
		}
	}
	return nil
}

type vpCursor struct {
	b *vpBucket
	i int
}

func (c *vpCursor) at() ([]byte, []byte) {
	if c.i < 0 || c.i >= len(c.b.keys) {
		return nil, nil
	}
	return c.b.keys[c.i], c.b.vals[c.i]
}
func (c *vpCursor) First() ([]byte, []byte) { c.i = 0; return c.at() }
func (c *vpCursor) Last() ([]byte, []byte)  { c.i = len(c.b.keys) - 1; return c.at() }
func (c *vpCursor) Next() ([]byte, []byte)  { c.i++; return c.at() }
func (c *vpCursor) Prev() ([]byte, []byte)  { c.i--; return c.at() }
func (c *vpCursor) Seek(seek []byte) ([]byte, []byte) {
	for i, k := range c.b.keys {
		if bytes.Compare(k, seek) >= 0 {
			c.i = i
			return c.at()
		}
	}
	c.i = len(c.b.keys)
	return nil, nil
}
func (c *vpCursor) Delete() error {
	k, _ := c.at()
	if k == nil {
		return nil
	}
	return c.b.Delete(k)
}

func (b *vpBucket) ReadCursor() walletdb.ReadCursor           { return &vpCursor{b: b} }
func (b *vpBucket) ReadWriteCursor() walletdb.ReadWriteCursor { return &vpCursor{b: b} }
func (b *vpBucket) Tx() walletdb.ReadWriteTx                  { return b.tx }
func (b *vpBucket) NextSequence() (uint64, error)             { b.seq++; return b.seq, nil }
func (b *vpBucket) SetSequence(v uint64) error                { b.seq = v; return nil }

type vpDB struct {
	root   *vpBucket // top-level buckets are the subs of root
	closed bool
}

func vpNewDB() *vpDB { return &vpDB{root: &vpBucket{}} }

type vpTx struct {
	db       *vpDB
	root     *vpBucket
	writable bool
	done     bool
	onCommit []func()
}

func (t *vpTx) ReadBucket(key []byte) walletdb.ReadBucket {
	s := t.root.sub(key)
	if s == nil {
		return nil
	}
	return s
}

func (t *vpTx) ReadWriteBucket(key []byte) walletdb.ReadWriteBucket {
	s := t.root.sub(key)
	if s == nil {
		return nil
	}
	return s
}

func (t *vpTx) ForEachBucket(f func(key []byte) error) error {
	for _, k := range t.root.subKeys {
		if err := f(k); err != nil {
			return err
		}
	}
	return nil
}

func (t *vpTx) CreateTopLevelBucket(key []byte) (walletdb.ReadWriteBucket, error) {
	if s := t.root.sub(key); s != nil {
		return s, nil // bdb's CreateTopLevelBucket is create-if-not-exists
	}
	return t.root.CreateBucket(key)
}

func (t *vpTx) DeleteTopLevelBucket(key []byte) error { return t.root.DeleteNestedBucket(key) }

func (t *vpTx) Rollback() error {
	if t.done {
		return walletdb.ErrTxClosed
	}
	t.done = true
	return nil
}

// Commit is one durable step: it either happens entirely or not at all.
func (t *vpTx) Commit() error {
	if t.done {
		return walletdb.ErrTxClosed
	}
	t.done = true
	if !t.writable {
		return walletdb.ErrTxNotWritable
	}
	crash, fail := vpFault.next("db-commit")
	if crash {
		panic(vpCrash{vpFault.step})
	}
	if fail {
		return errVpInjected
	}
	t.root.setTx(nil)
	t.db.root = t.root
	for _, f := range t.onCommit {
		f()
	}
	return nil
}

func (t *vpTx) OnCommit(f func()) { t.onCommit = append(t.onCommit, f) }

func (d *vpDB) BeginReadTx() (walletdb.ReadTx, error) {
	return &vpTx{db: d, root: d.root}, nil
}

func (d *vpDB) BeginReadWriteTx() (walletdb.ReadWriteTx, error) {
	tx := &vpTx{db: d, writable: true}
	tx.root = d.root.clone()
	tx.root.setTx(tx)
	return tx, nil
}

func (d *vpDB) Copy(w io.Writer) error { return errors.New("vp: Copy unsupported") }
func (d *vpDB) Close() error           { d.closed = true; return nil }
func (d *vpDB) PrintStats() string     { return "" }

func (d *vpDB) View(f func(tx walletdb.ReadTx) error, reset func()) error {
	reset()
	tx := &vpTx{db: d, root: d.root}
	err := f(tx)
	tx.done = true
	return err
}

func (d *vpDB) Update(f func(tx walletdb.ReadWriteTx) error, reset func()) error {
	reset()
	txi, _ := d.BeginReadWriteTx()
	tx := txi.(*vpTx)
	if err := f(tx); err != nil {
		tx.done = true
		return err
	}
	return tx.Commit()
}

// vpReadyDB returns a database whose header-index bucket already has the
// sub-buckets-ready marker, with all 2-byte sub-buckets available lazily.
func vpReadyDB() *vpDB {
	d := vpNewDB()
	idx := &vpBucket{autoSub: true}
	idx.keys = append(idx.keys, append([]byte{}, indexSubBucketsReady...))
	idx.vals = append(idx.vals, []byte{1})
	d.root.subKeys = append(d.root.subKeys, append([]byte{}, indexBucket...))
	d.root.subs = append(d.root.subs, idx)
	return d
}

// vpResetEnv gives every harness run a fresh disk and fault controller.
func vpResetEnv() {
	vpDisk = &vpFS{}
	vpFault = &vpFaultCtl{}
}
