package headerfs

// In-memory file system with POSIX O_APPEND semantics (see also the
// common walletdb model).

import (
	"errors"
	"io"
	"io/fs"
	"os"
	"time"
)

// ---------------------------------------------------------------- files

type vpFileData struct {
	name string
	data []byte
}

type vpFS struct {
	files []*vpFileData
}

var vpDisk = &vpFS{}

func (d *vpFS) lookup(name string) *vpFileData {
	for _, f := range d.files {
		if f.name == name {
			return f
		}
	}
	return nil
}

type vpFile struct {
	d      *vpFileData
	pos    int64
	closed bool
}

// vpOpenFile replaces os.OpenFile in the code under test (flags are the
// ones headerfs uses: O_RDWR|O_APPEND|O_CREATE).
func vpOpenFile(name string, flag int, perm os.FileMode) (File, error) {
	d := vpDisk.lookup(name)
	if d == nil {
		d = &vpFileData{name: name}
		vpDisk.files = append(vpDisk.files, d)
	}
	return &vpFile{d: d}, nil
}

func vpOsTruncate(name string, size int64) error {
	d := vpDisk.lookup(name)
	if d == nil {
		return errors.New("vp: file does not exist")
	}
	f := &vpFile{d: d}
	return f.Truncate(size)
}

func vpOsRemove(name string) error {
	for i, f := range vpDisk.files {
		if f.name == name {
			vpDisk.files = append(vpDisk.files[:i], vpDisk.files[i+1:]...)
			return nil
		}
	}
	return errors.New("vp: file does not exist")
}

func (f *vpFile) Read(p []byte) (int, error) {
	if f.pos >= int64(len(f.d.data)) {
		return 0, io.EOF
	}
	n := copy(p, f.d.data[f.pos:])
	f.pos += int64(n)
	return n, nil
}

func (f *vpFile) ReadAt(p []byte, off int64) (int, error) {
	if off < 0 {
		return 0, errors.New("vp: negative offset")
	}
	if off >= int64(len(f.d.data)) {
		return 0, io.EOF
	}
	n := copy(p, f.d.data[off:])
	if n < len(p) {
		return n, io.EOF
	}
	return n, nil
}

// Write appends (O_APPEND): the data always goes to the end of the file
// and the offset is left at the new end.
func (f *vpFile) Write(p []byte) (int, error) {
	crash, fail := vpFault.next("write")
	if crash {
		k := vpFault.torn
		if k >= len(p) {
			k = len(p) - 1
		}
		if k > 0 {
			f.d.data = append(f.d.data, p[:k]...)
		}
		panic(vpCrash{vpFault.step})
	}
	if fail {
		k := vpFault.failPart
		if k >= len(p) {
			k = len(p) - 1
		}
		if k < 0 {
			k = 0
		}
		f.d.data = append(f.d.data, p[:k]...)
		f.pos = int64(len(f.d.data))
		return k, errVpInjected
	}
	f.d.data = append(f.d.data, p...)
	f.pos = int64(len(f.d.data))
	return len(p), nil
}

func (f *vpFile) Seek(offset int64, whence int) (int64, error) {
	switch whence {
	case io.SeekStart:
		f.pos = offset
	case io.SeekCurrent:
		f.pos += offset
	case io.SeekEnd:
		f.pos = int64(len(f.d.data)) + offset
	}
	return f.pos, nil
}

func (f *vpFile) Close() error {
	f.closed = true
	return nil
}

func (f *vpFile) Sync() error { return nil }

func (f *vpFile) Name() string { return f.d.name }

// Truncate has ftruncate semantics: shrinking cuts the tail, growing
// fills with zeros, a negative size is EINVAL; the offset is unchanged.
func (f *vpFile) Truncate(size int64) error {
	if size < 0 {
		return errors.New("vp: truncate: invalid argument")
	}
	crash, fail := vpFault.next("truncate")
	if crash {
		panic(vpCrash{vpFault.step})
	}
	if fail {
		return errVpInjected
	}
	if size <= int64(len(f.d.data)) {
		f.d.data = f.d.data[:size:size]
		return nil
	}
	for int64(len(f.d.data)) < size {
		f.d.data = append(f.d.data, 0)
	}
	return nil
}

type vpFileInfo struct {
	name string
	size int64
}

func (i vpFileInfo) Name() string       { return i.name }
func (i vpFileInfo) Size() int64        { return i.size }
func (i vpFileInfo) Mode() fs.FileMode  { return 0644 }
func (i vpFileInfo) ModTime() time.Time { return time.Time{} }
func (i vpFileInfo) IsDir() bool        { return false }
func (i vpFileInfo) Sys() interface{}   { return nil }

func (f *vpFile) Stat() (os.FileInfo, error) {
	return vpFileInfo{name: f.d.name, size: int64(len(f.d.data))}, nil
}

// vpReadyDB returns a database whose header-index bucket already has the
// sub-buckets-ready marker, with all 2-byte sub-buckets available lazily.
func vpReadyDB() *vpDB {
	d := vpNewDB()
	idx := &vpBucket{autoSub: true}
	idx.keys = append(idx.keys, append([]byte{}, indexSubBucketsReady...))
	idx.vals = append(idx.vals, []byte{1})
	d.root.subKeys = append(d.root.subKeys, append([]byte{}, indexBucket...))
	d.root.subs = append(d.root.subs, idx)
	return d
}

// vpResetEnv gives every harness run a fresh disk and fault controller.
func vpResetEnv() {
	vpDisk = &vpFS{}
	vpFault = &vpFaultCtl{}
}
