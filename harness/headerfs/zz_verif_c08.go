package headerfs

// C08 — a crash at any point leaves the header stores recoverable and
// un-torn: an operation is interrupted at a symbolic durable step (file
// append with every class of torn length, file truncate, index commit),
// then the real New*HeaderStore recovery runs on what is left.

import (
	"github.com/btcsuite/btcd/chainhash/v2"
	"github.com/btcsuite/btcd/wire/v2"
)

// vpRunCrash runs f and reports whether the process "died" inside it.
func vpRunCrash(f func()) (crashed bool) {
	defer func() {
		if r := recover(); r != nil {
			if _, ok := r.(vpCrash); ok {
				crashed = true
				return
			}
			panic(r)
		}
	}()
	f()
	return false
}

func vpTornBytes(class int, total int) int {
	switch class {
	case 0:
		return 0
	case 1:
		return 1
	case 2:
		return total - 1
	case 3:
		return total / 2 // a whole record when two records are written
	}
	return 0
}

func vpFileLen(name string) int {
	d := vpDisk.lookup(name)
	if d == nil {
		return -1
	}
	return len(d.data)
}

// vpBlockStoreEquals: the store's content (read through the API only)
// is exactly the model.
func vpBlockStoreEquals(st *blockHeaderStore, model []wire.BlockHeader) bool {
	hdr, height, err := st.ChainTip()
	if err != nil || int(height) != len(model)-1 {
		return false
	}
	ok := *hdr == model[len(model)-1]
	for h := 0; h < len(model); h++ {
		got, err := st.FetchHeaderByHeight(uint32(h))
		if err != nil {
			return false
		}
		ok = vpAnd(ok, *got == model[h])
		hash := model[h].BlockHash()
		hh, err := st.HeightFromHash(&hash)
		if err != nil {
			return false
		}
		ok = vpAnd(ok, int(hh) == h)
	}
	return ok
}

// VerifH_C08_blockCrash: WriteHeaders / RollbackBlockHeaders interrupted
// at any durable step; afterwards NewBlockHeaderStore must succeed, show
// the pre- or the post-state, leave a file of whole records matching
// the tip, and accept further appends.
func VerifH_C08_blockCrash() {
	vpResetEnv()
	db := vpReadyDB()
	w := &vpWorld{samePrefix: false}
	n := vpRange("history", 0, vpParam("history", 2))
	regime := vpRange("regime", 0, 2)
	st, pre := vpPrepareBlockStore(db, w, n, regime)
	if st == nil {
		return
	}
	post := append([]wire.BlockHeader(nil), pre...)
	op := vpRange("op", 0, 1)
	var run func()
	total := 0
	if op == 0 {
		k := vpRange("batch", 1, 2)
		total = 80 * k
		hdrs := make([]BlockHeader, k)
		prev := pre[len(pre)-1].BlockHash()
		for j := 0; j < k; j++ {
			h := vpNewHeader(prev)
			prev = h.BlockHash()
			w.admit(prev)
			hc := h
			hdrs[j] = BlockHeader{BlockHeader: &hc, Height: uint32(len(pre) + j)}
			post = append(post, h)
		}
		run = func() { st.WriteHeaders(hdrs...) }
	} else {
		r := vpRange("rollback", 1, 2)
		if r > len(pre)-1 {
			return
		}
		post = post[:len(pre)-r]
		run = func() { st.RollbackBlockHeaders(uint32(r)) }
	}
	vpFault.step = 0
	vpFault.log = nil
	vpFault.crashAt = vpRange("crashAt", 1, 3)
	tornClass := vpRange("tornClass", 0, 3)
	vpFault.torn = vpTornBytes(tornClass, total)
	crashed := vpRunCrash(run)
	crashStep := ""
	if crashed {
		crashStep = vpFault.log[len(vpFault.log)-1]
	}
	vpFault.crashAt = 0
	if !crashed {
		vpReach("no-crash")
		if tornClass != 0 {
			return // same execution as tornClass 0
		}
	} else {
		vpReach("crashed-at-" + crashStep)
	}
	if crashStep != "write" && tornClass != 0 {
		return // torn length only matters for a crash inside the write
	}

	// known findings (see known_findings.json): which crash points they cover
	kfRollback := op == 1 && crashed && crashStep == "db-commit"
	kfTorn := op == 0 && crashed && crashStep == "write" && vpFault.torn%80 != 0
	kf, kfCond := "", false
	switch {
	case kfRollback:
		kf, kfCond = "KF-C08-rollback-truncates-file-before-index", true
	case kfTorn:
		kf, kfCond = "KF-C08-torn-append-survives-reopen", true
	}

	// ---- restart ----
	s2, err := NewBlockHeaderStore("d", db, vpParams())
	vpAssertKF(err == nil, "reopen-succeeds", kf, kfCond)
	if err != nil {
		return
	}
	st2 := s2.(*blockHeaderStore)
	isPre := vpBlockStoreEquals(st2, pre)
	isPost := vpBlockStoreEquals(st2, post)
	vpAssertKF(vpOr(isPre, isPost), "pre-or-post-state", kf, kfCond)
	if crashed && crashStep == "write" {
		vpAssertKF(isPre, "append-not-indexed-is-dropped", kf, kfCond)
	}
	_, tipH, err := st2.ChainTip()
	if err != nil {
		return
	}
	flen := vpFileLen("d/block_headers.bin")
	vpAssertKF(flen%80 == 0, "file-not-torn", kf, kfCond)
	vpAssertKF(flen == (int(tipH)+1)*80, "file-length-matches-tip", kf, kfCond)

	// syncing resumes: a further append reads back and survives another reopen
	cur := pre
	if int(tipH) == len(post)-1 {
		cur = post
	}
	prev := cur[len(cur)-1].BlockHash()
	h := vpNewHeader(prev)
	w.admitValue(h.BlockHash())
	hc := h
	err = st2.WriteHeaders(BlockHeader{BlockHeader: &hc, Height: tipH + 1})
	vpAssertKF(err == nil, "append-after-recovery-ok", kf, kfCond)
	if err != nil {
		return
	}
	next := append(append([]wire.BlockHeader(nil), cur...), h)
	vpAssertKF(vpBlockStoreEquals(st2, next), "append-after-recovery-reads-back", kf, kfCond)
	s3, err := NewBlockHeaderStore("d", db, vpParams())
	vpAssertKF(err == nil, "second-reopen-succeeds", kf, kfCond)
	if err == nil {
		vpAssertKF(vpBlockStoreEquals(s3.(*blockHeaderStore), next), "second-reopen-same", kf, kfCond)
	}
}

func vpFilterStoreEquals(fs *filterHeaderStore, model []chainhash.Hash) bool {
	got, height, err := fs.ChainTip()
	if err != nil || int(height) != len(model)-1 {
		return false
	}
	ok := *got == model[len(model)-1]
	for h := 0; h < len(model); h++ {
		g, err := fs.FetchHeaderByHeight(uint32(h))
		if err != nil {
			return false
		}
		ok = vpAnd(ok, *g == model[h])
	}
	return ok
}

// VerifH_C08_filterCrash: the same for the filter-header store
// (WriteHeaders / RollbackLastBlock).
func VerifH_C08_filterCrash() {
	vpResetEnv()
	db := vpReadyDB()
	w := &vpWorld{samePrefix: false}
	w.prepareGenesis()
	params := vpParams()
	bs := vpOpenBlockStore(db, params)
	if bs == nil {
		return
	}
	blocks := []wire.BlockHeader{vpGenesisHeader()}
	nb := 3
	var batch []BlockHeader
	prevB := blocks[0].BlockHash()
	for j := 1; j <= nb; j++ {
		h := vpNewHeader(prevB)
		prevB = h.BlockHash()
		w.admit(prevB)
		hc := h
		batch = append(batch, BlockHeader{BlockHeader: &hc, Height: uint32(j)})
		blocks = append(blocks, h)
	}
	if err := bs.WriteHeaders(batch...); err != nil {
		vpAssert(false, "block-setup-append")
		return
	}
	fs := vpOpenFilterStore(db)
	if fs == nil {
		return
	}
	g0, _, err := fs.ChainTip()
	if err != nil {
		return
	}
	pre := []chainhash.Hash{*g0}
	n := vpRange("history", 0, 2)
	regime := vpRange("regime", 0, 1)
	if n > 0 {
		var hs []FilterHeader
		for j := 1; j <= n; j++ {
			fh := vpNewFilterHash(w, "fh")
			hs = append(hs, FilterHeader{HeaderHash: blocks[j].BlockHash(), FilterHash: fh, Height: uint32(j)})
			pre = append(pre, fh)
		}
		if err := fs.WriteHeaders(hs...); err != nil {
			vpAssert(false, "filter-setup-append")
			return
		}
	}
	if regime == 0 {
		fs = vpOpenFilterStore(db)
		if fs == nil {
			return
		}
	}
	post := append([]chainhash.Hash(nil), pre...)
	op := vpRange("op", 0, 1)
	var run func()
	total := 0
	if op == 0 {
		room := nb - (len(pre) - 1)
		if room < 1 {
			return
		}
		maxk := 2
		if room < maxk {
			maxk = room
		}
		k := vpRange("batch", 1, maxk)
		total = 32 * k
		hs := make([]FilterHeader, k)
		for j := 0; j < k; j++ {
			hh := len(pre) + j
			fh := vpNewFilterHash(w, "fh")
			hs[j] = FilterHeader{HeaderHash: blocks[hh].BlockHash(), FilterHash: fh, Height: uint32(hh)}
			post = append(post, fh)
		}
		run = func() { fs.WriteHeaders(hs...) }
	} else {
		if len(pre) < 2 {
			return
		}
		newTip := blocks[len(pre)-2].BlockHash()
		post = post[:len(pre)-1]
		run = func() { fs.RollbackLastBlock(&newTip) }
	}
	vpFault.step = 0
	vpFault.log = nil
	vpFault.crashAt = vpRange("crashAt", 1, 3)
	tornClass := vpRange("tornClass", 0, 3)
	vpFault.torn = vpTornBytes(tornClass, total)
	crashed := vpRunCrash(run)
	crashStep := ""
	if crashed {
		crashStep = vpFault.log[len(vpFault.log)-1]
	}
	vpFault.crashAt = 0
	if !crashed {
		vpReach("no-crash")
		if tornClass != 0 {
			return
		}
	} else {
		vpReach("crashed-at-" + crashStep)
	}
	if crashStep != "write" && tornClass != 0 {
		return
	}
	kfRollback := op == 1 && crashed && crashStep == "db-commit"
	kfTorn := op == 0 && crashed && crashStep == "write" && vpFault.torn%32 != 0
	kf, kfCond := "", false
	switch {
	case kfRollback:
		kf, kfCond = "KF-C08-rollback-truncates-file-before-index", true
	case kfTorn:
		kf, kfCond = "KF-C08-torn-append-survives-reopen", true
	}

	s2, err := NewFilterHeaderStore("d", db, RegularFilter, params, nil)
	vpAssertKF(err == nil, "f-reopen-succeeds", kf, kfCond)
	if err != nil {
		return
	}
	fs2 := s2.(*filterHeaderStore)
	isPre := vpFilterStoreEquals(fs2, pre)
	isPost := vpFilterStoreEquals(fs2, post)
	vpAssertKF(vpOr(isPre, isPost), "f-pre-or-post-state", kf, kfCond)
	_, tipH, err := fs2.ChainTip()
	if err != nil {
		return
	}
	vpAssertKF(int(tipH) <= nb, "filter-tip-not-above-block-tip", kf, kfCond)
	flen := vpFileLen("d/reg_filter_headers.bin")
	vpAssertKF(flen%32 == 0, "f-file-not-torn", kf, kfCond)
	vpAssertKF(flen == (int(tipH)+1)*32, "f-file-length-matches-tip", kf, kfCond)
	if int(tipH) < nb {
		cur := pre
		if int(tipH) == len(post)-1 {
			cur = post
		}
		fh := vpNewFilterHash(w, "fh")
		hh := int(tipH) + 1
		err = fs2.WriteHeaders(FilterHeader{HeaderHash: blocks[hh].BlockHash(), FilterHash: fh, Height: uint32(hh)})
		vpAssertKF(err == nil, "f-append-after-recovery-ok", kf, kfCond)
		if err == nil {
			next := append(append([]chainhash.Hash(nil), cur...), fh)
			vpAssertKF(vpFilterStoreEquals(fs2, next), "f-append-after-recovery-reads-back", kf, kfCond)
		}
	}
}
