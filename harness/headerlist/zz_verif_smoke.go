package headerlist

import "github.com/btcsuite/btcd/wire/v2"

// Smoke harness: Ancestor agrees with the naive Prev walk.
func VerifH_smoke_ancestor() {
	capN := vpRange("cap", 1, 3)
	n := vpRange("pushes", 1, 5)
	base := vpI32("base")
	vpAssume(base >= 0 && base < 1000000)
	b := NewBoundedMemoryChain(uint32(capN))
	for i := 0; i < n; i++ {
		b.PushBack(Node{Height: base + int32(i), Header: wire.BlockHeader{Nonce: uint32(i)}})
	}
	tip := b.Back()
	vpAssert(tip != nil, "tip-nonnil")
	target := vpI32("target")
	vpAssume(target >= 0 && target <= tip.Height)
	anc := tip.Ancestor(target)
	// naive walk
	var naive *Node
	for p := tip; p != nil; p = p.Prev() {
		if p.Height == target {
			naive = p
			break
		}
	}
	if naive != nil {
		vpReach("found")
		vpAssert(anc == naive, "ancestor-equals-naive")
	} else {
		vpReach("evicted")
		vpAssert(anc == nil, "ancestor-nil-when-evicted")
	}
}
