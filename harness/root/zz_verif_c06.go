package neutrino

// C06 — a block is returned only if it is the requested, internally
// valid block.  The real GetBlock (incl. its response handler) runs with
// a stub work manager that feeds it a symbolic stream of peer responses
// and honours the handler's Progress the way the dispatcher does.

import (
	"errors"
	"time"

	"github.com/btcsuite/btcd/chaincfg/v2"
	"github.com/btcsuite/btcd/chainhash/v2"
	"github.com/btcsuite/btcd/wire/v2"
	"github.com/lightninglabs/neutrino/banman"
	"github.com/lightninglabs/neutrino/cache/lru"
	"github.com/lightninglabs/neutrino/headerfs"
	"github.com/lightninglabs/neutrino/query"
)

type vpResponse struct {
	peer string
	msg  wire.Message
	blk  *wire.MsgBlock // nil for a non-block message
	same bool           // carries the requested header
}

// vpWorkManager feeds every response to the handler until it reports
// Finished (success) or the responses run out (retries exhausted).
type vpWorkManager struct {
	responses []*vpResponse
	handled   []query.Progress
	queries   int
}

func (w *vpWorkManager) Start() error { return nil }
func (w *vpWorkManager) Stop() error  { return nil }
func (w *vpWorkManager) Query(reqs []*query.Request, _ ...query.QueryOption) chan error {
	w.queries++
	errChan := make(chan error, 1)
	for _, r := range w.responses {
		p := reqs[0].HandleResp(reqs[0].Req, r.msg, r.peer)
		w.handled = append(w.handled, p)
		if p.Finished {
			errChan <- nil
			return errChan
		}
	}
	errChan <- errors.New("vp: query failed after all retries")
	return errChan
}

// vpStaleSlotStore answers the lookup of one hash with another header.
type vpStaleSlotStore struct {
	*vpBlockStore
	hash chainhash.Hash
	hdr  wire.BlockHeader
}

func (s *vpStaleSlotStore) FetchHeader(h *chainhash.Hash) (*wire.BlockHeader, uint32, error) {
	if *h == s.hash {
		hd := s.hdr
		return &hd, 1, nil
	}
	return s.vpBlockStore.FetchHeader(h)
}

var vpPeers = []string{"10.0.0.1:8333", "10.0.0.2:8333", "[2001:db8::9]:8333"}

// VerifH_C06_getBlock: see the file comment.
func VerifH_C06_getBlock() {
	vpOpt("clock", 1)
	vpOpt("blocktime", 1)
	db := vpNewDB()
	banStore, err := banman.NewStore(db)
	if err != nil {
		vpAssert(false, "ban-store-created")
		return
	}
	// the requested block's header is stored at height 1
	genesis := wire.BlockHeader{Version: 1, Bits: 0x207fffff, Timestamp: time.Unix(1296688602, 0)}
	want := wire.BlockHeader{Version: 2, PrevBlock: genesis.BlockHash(), Bits: 0x207fffff,
		Timestamp: time.Unix(1296689202, 0), Nonce: vpU32("wantNonce")}
	bs := &vpBlockStore{hdrs: []wire.BlockHeader{genesis, want}, ctl: &vpWriteCtl{}}
	wantHash := want.BlockHash()
	// a damaged header store may answer the lookup of the requested hash with
	// another header (an index entry pointing at a slot that holds something
	// else): whatever it says, only a block with the requested hash may be returned
	var store headerfs.BlockHeaderStore = bs
	staleSlot := vpParam("staleslots", 1) == 1 && vpRange("headerStoreAnswersWithAnotherHeader", 0, 1) == 1
	var slotHeader wire.BlockHeader
	if staleSlot {
		slotHeader = want
		slotHeader.Nonce = vpU32("slotNonce")
		vpAssume(slotHeader.Nonce != want.Nonce)
		store = &vpStaleSlotStore{vpBlockStore: bs, hash: wantHash, hdr: slotHeader}
		vpReach("header-store-answers-with-another-header")
	}

	nresp := vpRange("responses", 0, vpParam("maxresponses", 2))
	wm := &vpWorkManager{}
	for k := 0; k < nresp; k++ {
		r := &vpResponse{peer: vpPeers[vpRange("peer", 0, len(vpPeers)-1)]}
		switch vpRange("kind", 0, 2) {
		case 0: // a block carrying the requested header
			r.blk = &wire.MsgBlock{Header: want}
			r.same = true
			r.msg = r.blk
		case 1: // some other block (with a damaged store: the one the store points at)
			other := want
			other.Nonce = vpU32("otherNonce")
			vpAssume(other.Nonce != want.Nonce)
			if staleSlot {
				other = slotHeader
			}
			r.blk = &wire.MsgBlock{Header: other}
			r.msg = r.blk
		case 2: // not a block at all
			r.msg = wire.NewMsgPing(7)
		}
		wm.responses = append(wm.responses, r)
	}
	s := &ChainService{
		BlockHeaders: store,
		BlockCache:   lru.NewCache[wire.InvVect, *CacheableBlock](1 << 30),
		workManager:  wm,
		banStore:     banStore,
		timeSource:   vpTimeSource{},
		chainParams:  chaincfg.Params{Net: wire.SimNet},
		quit:         make(chan struct{}),
	}

	blk, gerr := s.GetBlock(wantHash)
	if staleSlot {
		if blk != nil {
			vpAssert(blk.MsgBlock().Header.BlockHash() == wantHash, "returned-block-has-the-requested-hash")
		} else {
			vpAssert(gerr != nil, "fails-rather-than-return-anything-else")
		}
		cachedS, cerrS := s.BlockCache.Get(*wire.NewInvVect(wire.InvTypeWitnessBlock, &wantHash))
		if cerrS == nil && cachedS != nil {
			vpAssert(cachedS.Block.MsgBlock().Header.BlockHash() == wantHash, "cached-block-has-the-requested-hash")
		}
		return
	}

	// reference: the first response that carries the requested header and is valid
	firstValid := -1
	timeOnly := false
	for k, r := range wm.responses {
		if k >= len(wm.handled) {
			break // not delivered (the query had already finished)
		}
		// (the sanity check looks at the header's timestamp first and stops there when it is too far ahead of the local clock)
		valid := r.same && vpConcreteBool(vpBlockTimeOK(r.blk)) && vpConcreteBool(vpBlockSane(r.blk)) && vpConcreteBool(vpBlockWitnessOK(r.blk))
		if valid && firstValid < 0 {
			firstValid = k
		}
		if r.same && !vpConcreteBool(vpBlockTimeOK(r.blk)) && vpConcreteBool(vpBlockSane(r.blk)) && vpConcreteBool(vpBlockWitnessOK(r.blk)) {
			// the requested block, internally valid, refused only for its
			// timestamp: the property allows returning it as well as refusing it
			timeOnly = true
		}
	}
	if timeOnly {
		vpReach("valid-block-refused-for-its-timestamp-alone")
		if blk != nil {
			mb := blk.MsgBlock()
			vpAssert(mb.Header.BlockHash() == wantHash, "returned-block-has-the-requested-hash")
			vpAssert(vpConcreteBool(vpBlockSane(mb)), "returned-block-is-sane")
			vpAssert(vpConcreteBool(vpBlockWitnessOK(mb)), "returned-block-has-valid-witness-commitment")
		} else {
			vpAssert(gerr != nil, "fails-rather-than-return-anything-else")
		}
		return
	}
	// the dispatcher must have been allowed to go on until a valid response showed up
	for k, r := range wm.responses {
		if k < len(wm.handled) {
			continue
		}
		// undelivered responses exist only after a Finished verdict
		_ = r
		vpAssert(firstValid >= 0 && firstValid < k, "query-finished-only-by-a-valid-response")
	}
	if firstValid >= 0 {
		vpReach("valid-response-present")
		vpAssert(gerr == nil && blk != nil, "valid-block-is-returned")
		if blk != nil {
			vpAssert(blk.MsgBlock() == wm.responses[firstValid].blk, "returns-the-first-valid-response")
			vpAssert(int(blk.Height()) == 1, "returned-block-has-its-height")
		}
	} else {
		vpReach("no-valid-response")
		vpAssert(gerr != nil && blk == nil, "fails-rather-than-return-anything-else")
	}
	if blk != nil {
		mb := blk.MsgBlock()
		vpAssert(mb.Header.BlockHash() == wantHash, "returned-block-has-the-requested-hash")
		vpAssert(vpConcreteBool(vpBlockSane(mb)), "returned-block-is-sane")
		vpAssert(vpConcreteBool(vpBlockWitnessOK(mb)), "returned-block-has-valid-witness-commitment")
	}
	// bans: exactly the senders of a requested-header block that failed a check
	for _, p := range vpPeers {
		shouldBan, mayBan := false, false
		for k, r := range wm.responses {
			if k >= len(wm.handled) || r.peer != p || !r.same {
				continue
			}
			if !vpConcreteBool(vpBlockTimeOK(r.blk)) {
				// refused for its timestamp alone: whether that is held against
				// the sender is not a C06 matter
				mayBan = true
				vpReach("block-timestamp-ahead-of-the-local-clock")
			} else if !vpConcreteBool(vpBlockSane(r.blk)) {
				shouldBan = true
			} else if !vpConcreteBool(vpBlockWitnessOK(r.blk)) {
				shouldBan = true
			}
		}
		banned := s.IsBanned(p)
		if mayBan && !shouldBan {
			continue
		}
		if shouldBan {
			vpReach("expect-ban")
			vpAssert(banned, "sender-of-invalid-block-banned")
			ipNet, _ := banman.ParseIPNet(p, nil)
			st, _ := banStore.Status(ipNet)
			vpAssert(st.Reason == banman.InvalidBlock, "ban-reason-invalid-block")
		} else {
			vpAssert(!banned, "other-peers-not-banned")
		}
	}
	// cache: only the returned block
	invT := wire.InvTypeWitnessBlock
	cached, cerr := s.BlockCache.Get(*wire.NewInvVect(invT, &wantHash))
	if blk != nil {
		vpAssert(cerr == nil && cached != nil && cached.Block == blk, "returned-block-is-cached")
		// a second call is served from the cache without a query
		q0 := wm.queries
		blk2, err2 := s.GetBlock(wantHash)
		vpAssert(err2 == nil && blk2 == blk && wm.queries == q0, "second-call-served-from-cache")
	} else {
		vpAssert(cerr != nil, "nothing-cached-on-failure")
	}
	// an unknown hash is refused before any query
	unknown := want
	unknown.Nonce = vpU32("unknownNonce")
	vpAssume(unknown.Nonce != want.Nonce)
	q0 := wm.queries
	_, uerr := s.GetBlock(unknown.BlockHash())
	vpAssert(uerr != nil && wm.queries == q0, "unknown-header-refused-without-query")
}

// vpConcreteBool decides a symbolic boolean by branching (both sides
// are explored).
func vpConcreteBool(b bool) bool {
	if b {
		return true
	}
	return false
}
