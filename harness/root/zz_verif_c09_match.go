package neutrino

// C09 (matching part): every transaction of a connected block that pays
// a watched address or spends a watched outpoint - including outpoints
// created earlier in the rescan - is delivered with that block.  The real
// extractBlockMatches / paysWatchedAddr / spendsWatchedInput run over two
// consecutive blocks with real witness-pubkey-hash addresses.

import (
	"github.com/btcsuite/btcd/address/v2"
	"github.com/btcsuite/btcd/btcutil/v2"
	"github.com/btcsuite/btcd/btcutil/v2/gcs"
	"github.com/btcsuite/btcd/chaincfg/v2"
	"github.com/btcsuite/btcd/chainhash/v2"
	"github.com/btcsuite/btcd/txscript/v2"
	"github.com/btcsuite/btcd/wire/v2"
	"github.com/lightninglabs/neutrino/headerfs"
)

// VerifH_C09_matching: block 1 holds a funding transaction with up to
// three outputs, each paying watched address A, watched address B or an
// unwatched script; block 2 holds one transaction per funding output
// that may spend it, paying only unwatched scripts.
func VerifH_C09_matching() {
	vpOpt("clock", 1)
	vpModelFilters = nil
	params := chaincfg.Params{Bech32HRPSegwit: "bcrt"}
	var ha, hb [20]byte
	ha[0], hb[0] = 0xa1, 0xb2
	addrA, errA := address.NewAddressWitnessPubKeyHash(ha[:], &params)
	addrB, errB := address.NewAddressWitnessPubKeyHash(hb[:], &params)
	if errA != nil || errB != nil {
		vpAssert(false, "addresses-created")
		return
	}
	scriptA, _ := txscript.PayToAddrScript(addrA)
	scriptB, _ := txscript.PayToAddrScript(addrB)
	other := []byte{0x51, 0x99}

	nout := vpRange("outputs", 1, 3)
	fund := &wire.MsgTx{Version: 2, LockTime: 1, TxIn: []*wire.TxIn{{PreviousOutPoint: wire.OutPoint{Index: 5}}}}
	kinds := make([]int, nout)
	for o := 0; o < nout; o++ {
		kinds[o] = vpRange("pays", 0, 2) // 0 unwatched, 1 address A, 2 address B
		s := other
		switch kinds[o] {
		case 1:
			s = scriptA
		case 2:
			s = scriptB
		}
		fund.TxOut = append(fund.TxOut, &wire.TxOut{Value: int64(10 + o), PkScript: s})
	}
	fh := fund.TxHash()
	g := vpHonestHeader(nil, 0, 0)
	h1 := vpHonestHeader(&g, 1, 1)
	h2 := vpHonestHeader(&h1, 2, 2)
	blk1 := &wire.MsgBlock{Header: h1, Transactions: []*wire.MsgTx{fund}}
	blk2 := &wire.MsgBlock{Header: h2}
	// the spending transactions sit in the next block, or later in the funding
	// block itself (created and spent in one block)
	sameBlock := vpRange("spendsInTheFundingBlock", 0, 1) == 1
	spent := make([]bool, nout)
	var spends []*wire.MsgTx
	for o := 0; o < nout; o++ {
		if vpRange("spent", 0, 1) == 1 {
			spent[o] = true
			spends = append(spends, &wire.MsgTx{Version: 2, LockTime: uint32(20 + o),
				TxIn:  []*wire.TxIn{{PreviousOutPoint: wire.OutPoint{Hash: fh, Index: uint32(o)}}},
				TxOut: []*wire.TxOut{{Value: 1, PkScript: other}}})
		}
	}
	if sameBlock {
		blk1.Transactions = append(blk1.Transactions, spends...)
	} else {
		blk2.Transactions = append(blk2.Transactions, spends...)
	}
	c := &vpRescanChain{params: params, best: []wire.BlockHeader{g, h1, h2}, blocks: map[chainhash.Hash]*wire.MsgBlock{
		h1.BlockHash(): blk1, h2.BlockHash(): blk2}, filters: map[chainhash.Hash]*gcs.Filter{}}
	ro := defaultRescanOptions()
	ro.watchAddrs = []address.Address{addrA, addrB}
	filter := &gcs.Filter{}

	got1, err1 := extractBlockMatches(c, ro, &headerfs.BlockStamp{Height: 1, Hash: h1.BlockHash()}, filter)
	vpAssert(err1 == nil, "block-1-processed")
	paysWatched := false
	for _, k := range kinds {
		if k != 0 {
			paysWatched = true
		}
	}
	if paysWatched {
		vpReach("funding-pays-a-watched-address")
		vpAssert(len(got1) >= 1 && got1[0].MsgTx() == fund, "tx-paying-a-watched-address-is-delivered")
	} else {
		vpAssert(len(got1) == 0, "irrelevant-tx-is-not-delivered")
	}
	got2, err2 := extractBlockMatches(c, ro, &headerfs.BlockStamp{Height: 2, Hash: h2.BlockHash()}, filter)
	vpAssert(err2 == nil, "block-2-processed")
	if sameBlock {
		// the spends were examined with the funding block: they are what got1 holds beyond the funding tx
		vpAssert(len(got2) == 0, "nothing-relevant-in-an-empty-block")
		if paysWatched {
			got2 = got1[1:]
		} else {
			got2 = got1
		}
		if len(spends) > 0 && paysWatched {
			vpReach("output-created-and-spent-in-one-block")
		}
	}
	// every spend of an output that paid a watched address must be delivered, nothing else
	want := 0
	for _, tx := range spends {
		o := int(tx.TxIn[0].PreviousOutPoint.Index)
		relevant := kinds[o] != 0
		found := false
		for _, g2 := range got2 {
			if g2.MsgTx() == tx {
				found = true
			}
		}
		if relevant {
			want++
			if o > 0 {
				vpReach("spend-of-a-non-first-watched-output")
			}
			vpAssert(found, "spend-of-an-outpoint-created-earlier-in-the-rescan-is-delivered")
		} else {
			vpAssert(!found, "spend-of-an-unwatched-output-is-not-delivered")
		}
	}
	vpAssert(len(got2) == want, "exactly-the-relevant-transactions-are-delivered")
	var _ *btcutil.Tx
}
