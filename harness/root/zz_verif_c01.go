package neutrino

// C01 / C02 — the real handleHeadersMsg / handleDonePeerMsg of a real
// blockManager (newBlockManager on slice-model header stores) is driven
// with histories of headers messages from a sync and a non-sync peer.
// After every message the whole block-header store is compared with
//   - C01: the validity rules recomputed by an independent reference
//     (linkage, proof-of-work predicate, required bits, median-time-past,
//     future-time limit, checkpoints) — also at every store mutation;
//   - C02: the outcome the property allows for what the message offered
//     (unchanged / extended by the valid batch / replaced by the strictly
//     heavier valid branch forking at or above the newest reached
//     checkpoint / cut back to the previous checkpoint after a checkpoint
//     failure).

import (
	"container/list"

	"github.com/btcsuite/btcd/chainhash/v2"
	"math/big"
	"sort"
	"time"

	"github.com/btcsuite/btcd/blockchain"
	"github.com/btcsuite/btcd/chaincfg/v2"
	"github.com/btcsuite/btcd/peer"
	"github.com/btcsuite/btcd/wire/v2"
)

const vpNowUnix = 1700000000 // vpTimeSource.AdjustedTime

type vpHdrScn struct {
	e        *vpBMEnv
	cps      []int // checkpoint heights, ascending; hashes are the honest chain's
	peers    [2]*ServerPeer
	plist    *list.List
	done     [2]bool
	salt     int64
	lazySync bool
	offered  []wire.BlockHeader // the last offered chain whose headers all passed the rules
	interval int                // difficulty retarget interval in blocks (0: the network never retargets)
	pace     int                // timestamps of fresh headers: 0 one block time apart, 1 as early as the rules allow, 2 far apart, 3 each header late or on time
	mindiff  bool               // the network has the testnet-style minimum-difficulty exception (ReduceMinDifficulty, 20 minutes)
}

// reqBits: the difficulty the retarget rules require of the header on top
// of parent (an independent restatement of the rule: every interval-th
// height the target is scaled by the time the last interval took, clamped
// to a factor of 4 and to the proof-of-work limit).  On a network with the
// minimum-difficulty exception a header between two retargets whose
// timestamp ts is more than 20 minutes after its parent's must carry the
// proof-of-work limit, and any other one the difficulty of the nearest
// ancestor that is not such an exception (or sits on a retarget height).
func (s *vpHdrScn) reqBits(parent []wire.BlockHeader, ts int64) uint32 {
	if s.interval == 0 {
		return vpPowLimitBits
	}
	h := len(parent)
	last := parent[h-1]
	if h%s.interval != 0 {
		if s.mindiff {
			if ts > last.Timestamp.Unix()+20*60 {
				vpReach("minimum-difficulty-exception-applies")
				return vpPowLimitBits
			}
			i := h - 1
			for i > 0 && i%s.interval != 0 && parent[i].Bits == vpPowLimitBits {
				i--
			}
			if parent[i].Bits != last.Bits {
				vpReach("difficulty-restored-after-a-minimum-difficulty-header")
			}
			return parent[i].Bits
		}
		return last.Bits
	}
	first := parent[h-s.interval]
	span := int64(s.interval) * 600
	actual := last.Timestamp.Unix() - first.Timestamp.Unix()
	if actual < span/4 {
		vpReach("retarget-window-clamped-fast")
		actual = span / 4
	}
	if actual > span*4 {
		vpReach("retarget-window-clamped-slow")
		actual = span * 4
	}
	nt := new(big.Int).Mul(blockchain.CompactToBig(last.Bits), big.NewInt(actual))
	nt.Div(nt, big.NewInt(span))
	if nt.Cmp(vpPowLimit) > 0 {
		nt.Set(vpPowLimit)
	}
	return blockchain.BigToCompact(nt)
}

func vpWorkOf(hs []wire.BlockHeader) *big.Int {
	w := big.NewInt(0)
	for i := range hs {
		w.Add(w, blockchain.CalcWork(hs[i].Bits))
	}
	return w
}

// vpDisconnected: the block manager asked for this peer to be dropped.
func vpDisconnected(sp *ServerPeer) bool {
	if vpSymbolic() {
		return vpPeerDisconnects(sp.Peer) > 0
	}
	done := make(chan struct{})
	go func() {
		sp.Peer.WaitForDisconnect()
		close(done)
	}()
	select {
	case <-done:
		return true
	case <-time.After(30 * time.Millisecond):
		return false
	}
}

func vpMkServerPeer(addr string) *ServerPeer {
	if vpSymbolic() {
		sp := &ServerPeer{Peer: &peer.Peer{}}
		vpPeerSet(sp.Peer, "Addr", addr)
		return sp
	}
	p := peer.NewInboundPeer(&peer.Config{ChainParams: &chaincfg.RegressionNetParams})
	return &ServerPeer{Peer: p}
}

// vpRefMTP: median of the last (up to) 11 timestamps of chain.
func vpRefMTP(chain []wire.BlockHeader) int64 {
	lo := len(chain) - 11
	if lo < 0 {
		lo = 0
	}
	var ts []int64
	for i := lo; i < len(chain); i++ {
		ts = append(ts, chain[i].Timestamp.Unix())
	}
	sort.Slice(ts, func(a, b int) bool { return ts[a] < ts[b] })
	return ts[len(ts)/2]
}

func (s *vpHdrScn) isCp(h int) bool {
	for _, c := range s.cps {
		if c == h {
			return true
		}
	}
	return false
}

// refValid: every rule of the property for header h on top of parent.
func (s *vpHdrScn) refValid(parent []wire.BlockHeader, h *wire.BlockHeader) bool {
	ok := vpPowOK(h)
	ok = vpAnd(ok, h.PrevBlock == parent[len(parent)-1].BlockHash())
	ok = vpAnd(ok, h.Bits == s.reqBits(parent, h.Timestamp.Unix()))
	ok = vpAnd(ok, h.Timestamp.Unix() > vpRefMTP(parent))
	ok = vpAnd(ok, h.Timestamp.Unix() <= vpNowUnix+2*3600)
	if s.isCp(len(parent)) {
		ok = vpAnd(ok, *h == s.e.chain[len(parent)])
	}
	return ok
}

// checkStore: C01 on the persisted chain.
func (s *vpHdrScn) checkStore(tag string) {
	S := s.e.bs.hdrs
	vpAssert(len(S) >= 1 && S[0] == s.e.chain[0], tag+"chain-starts-at-genesis")
	for i := 1; i < len(S); i++ {
		hc := S[i]
		vpAssert(hc.PrevBlock == S[i-1].BlockHash(), tag+"stored-header-names-its-predecessor")
		vpAssert(vpPowOK(&hc), tag+"stored-header-meets-proof-of-work")
		vpAssert(hc.Bits == s.reqBits(S[:i], hc.Timestamp.Unix()), tag+"stored-header-has-required-difficulty")
		vpAssert(hc.Timestamp.Unix() > vpRefMTP(S[:i]), tag+"stored-header-after-median-time-past")
		vpAssert(hc.Timestamp.Unix() <= vpNowUnix+2*3600, tag+"stored-header-within-future-limit")
	}
	for _, c := range s.cps {
		if c < len(S) {
			vpAssert(S[c] == s.e.chain[c], tag+"stored-header-equals-checkpoint")
		}
	}
}

// checkLookups: tip / by-height / by-hash agree (through the store API the
// blockManager itself reads).
func (s *vpHdrScn) checkLookups(tag string) {
	st := s.e.bm.cfg.BlockHeaders
	tip, th, err := st.ChainTip()
	vpAssert(err == nil, tag+"tip-readable")
	if err != nil {
		return
	}
	for h := uint32(0); h <= th; h++ {
		bh, err := st.FetchHeaderByHeight(h)
		vpAssert(err == nil, tag+"height-lookup-ok")
		if err != nil {
			continue
		}
		hash := bh.BlockHash()
		hh, err2 := st.HeightFromHash(&hash)
		vpAssert(err2 == nil && hh == h, tag+"hash-lookup-agrees-with-height-lookup")
		if h == th {
			vpAssert(*bh == *tip, tag+"tip-agrees-with-height-lookup")
		}
	}
	_, err = st.FetchHeaderByHeight(th + 1)
	vpAssert(err != nil, tag+"nothing-above-the-tip")
}

func vpSameChain(a, b []wire.BlockHeader) bool {
	if len(a) != len(b) {
		return false
	}
	ok := true
	for i := range a {
		ok = vpAnd(ok, a[i] == b[i])
	}
	return ok
}

// altHeader: a fresh header for height on top of parent (never equal to an
// honest one: its version differs).  Its proof of work is left free (an
// unconstrained value of the predicate) unless kind pins a defect; with
// symTs its timestamp is any 32-bit value.
func (s *vpHdrScn) altHeader(parent []wire.BlockHeader, kind int, symTs bool) *wire.BlockHeader {
	s.salt++
	height := len(parent)
	h := &wire.BlockHeader{Version: 5, PrevBlock: parent[len(parent)-1].BlockHash(),
		Timestamp: time.Unix(vpTimeBase+int64(height)*600+10+s.salt, 0), Nonce: uint32(s.salt)}
	switch kind {
	case 3: // exactly the median time past (must be strictly later)
		h.Timestamp = time.Unix(vpRefMTP(parent), 0)
	case 4: // one second beyond the future limit
		h.Timestamp = time.Unix(vpNowUnix+2*3600+1, 0)
	case 5: // boundary, valid: one second after the median time past
		h.Timestamp = time.Unix(vpRefMTP(parent)+1, 0)
	case 6: // boundary, valid: exactly at the future limit
		h.Timestamp = time.Unix(vpNowUnix+2*3600, 0)
	case 8: // well-formed, but a sibling of the header before it in the message, not its child
		h.PrevBlock = parent[len(parent)-2].BlockHash()
	}
	if kind == 0 {
		switch s.pace {
		case 1: // as early as the median-time rule allows: retarget windows run fast
			h.Timestamp = time.Unix(vpRefMTP(parent)+1, 0)
		case 2: // five retarget timespans after the parent: windows run slow
			h.Timestamp = time.Unix(parent[len(parent)-1].Timestamp.Unix()+5*int64(s.interval+1)*600, 0)
		}
	}
	if s.pace == 3 && (kind == 0 || kind == 2 || kind == 7 || kind == 9) {
		// each header by itself: more than 20 minutes after its parent
		// (exactly one second beyond the limit), exactly at the limit, or on time
		switch vpRange("spacing", 0, 2) {
		case 0:
			h.Timestamp = time.Unix(parent[len(parent)-1].Timestamp.Unix()+20*60+1, 0)
		case 1:
			h.Timestamp = time.Unix(parent[len(parent)-1].Timestamp.Unix()+20*60, 0)
		default:
			h.Timestamp = time.Unix(parent[len(parent)-1].Timestamp.Unix()+600, 0)
		}
	}
	if symTs && kind == 0 {
		h.Timestamp = time.Unix(int64(vpU32("timestamp")), 0)
	}
	// the difficulty the rules require of a header with this timestamp
	h.Bits = s.reqBits(parent, h.Timestamp.Unix())
	switch kind {
	case 2: // not the required difficulty
		h.Bits = h.Bits - 1
	case 7: // the parent's difficulty where the rules require something else (a retarget, or the return from a minimum-difficulty header)
		h.Bits = parent[len(parent)-1].Bits
	case 9: // the proof-of-work limit where the minimum-difficulty exception does not apply
		h.Bits = vpPowLimitBits
	}
	// whether the header meets its proof-of-work target is a free input of
	// its own (symbolically: an unconstrained value of the predicate for a
	// fresh nonce; natively: a nonce is searched for that has this outcome)
	good := kind != 1
	if good && vpParam("freepow", 1) == 1 {
		good = vpBool("powOK")
	}
	vpGrind(h, good)
	return h
}

// oneMessage builds a message against the current store, runs the real
// handler and checks the outcome.  Returns false when the scenario shape
// does not apply.
type vpMsgOpt struct {
	maxNew      int
	kinds       int
	symTs       bool
	knownPrefix bool
	nearTip     bool // only parents at the tip or one below it
	forksOnly   bool // only parents below the tip
}

func (s *vpHdrScn) oneMessage(tag string, o vpMsgOpt) bool {
	maxNew, kinds := o.maxNew, o.kinds
	e := s.e
	S := append([]wire.BlockHeader(nil), e.bs.hdrs...)
	tip := len(S) - 1
	n := len(e.chain) - 1

	lowBase := -1
	if o.nearTip && tip >= 1 {
		lowBase = tip - 1
	}
	hiBase := tip
	if o.forksOnly {
		lowBase, hiBase = 0, tip-1
	}
	base := vpRange(tag+"base", lowBase, hiBase) // height of the parent of the first offered new header; -1: unknown parent
	p := 0
	if base >= 1 && o.knownPrefix {
		p = vpRange(tag+"knownPrefix", 0, 1)
	}
	var out []*wire.BlockHeader
	var hgt []int
	for k := base - p + 1; k <= base; k++ {
		hc := S[k]
		out = append(out, &hc)
		hgt = append(hgt, k)
	}
	var parent []wire.BlockHeader
	if base >= 0 {
		parent = append(parent, S[:base+1]...)
	} else if s.offered != nil && !vpSameChain(s.offered, S) && len(s.offered) > len(S) && vpRange(tag+"onOffered", 0, 1) == 1 {
		// on top of a header an earlier message offered (and that passed
		// every rule) but that the store does not hold
		parent = append(parent, s.offered...)
	} else {
		// a header nobody stored
		x := wire.BlockHeader{Version: 4, Bits: vpPowLimitBits, Timestamp: time.Unix(vpTimeBase+77, 0)}
		vpGrind(&x, true)
		parent = append(parent, S[0], x) // heights are irrelevant: the message does not connect
	}
	honest := vpRange(tag+"branch", 0, 1) == 0
	L := vpRange(tag+"newHeaders", vpParam("minnew", 1), maxNew)
	if honest {
		if base < 0 || base+L > n || !vpSameChain(S[:base+1], e.chain[:base+1]) {
			return false
		}
		for j := 1; j <= L; j++ {
			hc := e.chain[base+j]
			out = append(out, &hc)
			hgt = append(hgt, base+j)
		}
	} else {
		s.pace = 0
		if vpParam("paces", 0) == 1 {
			s.pace = vpRange(tag+"pace", 0, 2)
		}
		if s.mindiff {
			s.pace = 3 // every header by itself late (minimum difficulty allowed) or not
		}
		bad := -1
		kind := 0
		kmax := kinds
		sib, minDiffClaim := -1, -1
		if vpParam("siblings", 0) == 1 {
			kmax++ // one more defect: a header that is a sibling of its predecessor in the message
			sib = kmax
		}
		if s.mindiff {
			kmax++ // one more: a header claiming the minimum difficulty whether or not the exception applies
			minDiffClaim = kmax
		}
		if kmax > 0 {
			kind = vpRange(tag+"kind", 0, kmax)
			if kind == sib {
				kind = 8
			} else if kind == minDiffClaim {
				kind = 9
			}
			if kind != 0 {
				bad = vpRange(tag+"kindAt", 0, L-1)
			}
			if kind == 8 {
				if bad == 0 {
					return false // needs a predecessor inside the message
				}
				vpReach("message-with-an-unconnected-header")
			}
			if kind == 1 && vpParam("freepow", 1) == 1 {
				return false // covered by the free proof-of-work predicate
			}
			if kind >= 3 && bad == L-1 && o.symTs {
				return false // covered by the symbolic timestamp of the last header
			}
		}
		for j := 0; j < L; j++ {
			k := 0
			if j == bad {
				k = kind
			}
			// the last header is nobody's ancestor inside the message: its
			// timestamp is fully symbolic
			h := s.altHeader(parent, k, j == L-1 && o.symTs)
			out = append(out, h)
			hgt = append(hgt, len(parent))
			parent = append(parent, *h)
		}
	}

	// ---- what the message offers, relative to the store ----
	i0 := len(out)
	for i := range out {
		if base >= 0 && hgt[i] <= tip && *out[i] == S[hgt[i]] {
			continue // already stored
		}
		i0 = i
		break
	}
	R := out[i0:]
	f := -1
	if base >= 0 && len(R) > 0 {
		f = hgt[i0] - 1
	}
	allValid := true
	firstBad := len(R)
	cpFailure := false // the first failing header fails only the checkpoint rule
	if f >= 0 {
		chain := append([]wire.BlockHeader(nil), S[:f+1]...)
		for j, r := range R {
			v := s.refValid(chain, r)
			if !v && firstBad == len(R) {
				firstBad = j
				allValid = false
				saved := s.cps
				s.cps = nil
				cpFailure = s.refValid(chain, r)
				s.cps = saved
			}
			chain = append(chain, *r)
		}
	}
	if f >= 0 && firstBad > 0 {
		s.offered = append(append([]wire.BlockHeader(nil), S[:f+1]...), vpDeref(R[:firstBad])...)
	}
	lastCpReached, nextCp := 0, -1
	for _, c := range s.cps {
		if c <= tip {
			lastCpReached = c
		} else if nextCp < 0 {
			nextCp = c
		}
	}
	// the batch is consumed up to the first next-checkpoint header
	cut := len(R)
	if nextCp > 0 && f >= 0 && f+len(R) >= nextCp {
		cut = nextCp - f
	}

	// who sends it, and whether the client has a sync peer: peer 0 is the
	// sync peer (if any).  Without a sync peer both senders are alike.
	senderIdx := vpRange(tag+"sender", 0, 1)
	if s.lazySync {
		s.lazySync = false
		if f >= 0 && f < tip && senderIdx == 1 && vpRange("hasSyncPeer", 0, 1) == 0 {
			e.bm.syncPeer = nil
		}
	}
	sender := s.peers[senderIdx]
	listened := e.bm.SyncPeer() == sender || e.bm.BlockHeadersSynced()

	if vpParam("quitmid", 0) == 1 && f >= 0 && f < tip && !e.quitOnDisconnect {
		// the client may be shut down while the reorganisation rolls back
		e.quitOnDisconnect = vpRange(tag+"shutdownDuringTheRollback", 0, 1) == 1
	}
	msg := &wire.MsgHeaders{Headers: out}
	e.bm.handleHeadersMsg(&headersMsg{headers: msg, peer: sender})
	vpQuiesce()

	S2 := e.bs.hdrs
	s.checkStore(tag)
	s.checkLookups(tag)
	// (C03/C08) at no instant of the handling were filter headers committed
	// above the block-header tip; afterwards they only cover surviving blocks
	vpAssert(!e.ftAboveBt, tag+"filter-chain-never-ahead-of-block-chain-at-any-instant")
	vpAssert(len(e.fs.hashes) <= len(S2), tag+"filter-chain-not-ahead-after-the-message")
	for h := 0; h < len(e.fs.hashes) && h < len(S); h++ {
		if !(h < len(S2)) || S2[h] != S[h] {
			vpAssert(false, tag+"no-filter-header-survives-the-disconnection-of-its-block")
			break
		}
	}

	unchanged := vpSameChain(S2, S)
	cutBack := false // discarded down to the previous checkpoint after a checkpoint failure
	if cpFailure && f+firstBad+1 == nextCp {
		cutBack = vpSameChain(S2, S[:lastCpReached+1])
	}
	switch {
	case len(R) == 0:
		vpReach("nothing-new")
		vpAssert(unchanged, tag+"known-headers-change-nothing")
	case f < 0:
		vpReach("unconnected")
		vpAssert(unchanged, tag+"unconnected-headers-change-nothing")
	case f == tip:
		if allValid {
			vpReach("valid-extension")
			want := append(append([]wire.BlockHeader(nil), S...), vpDeref(R[:cut])...)
			if listened || i0 == 0 {
				vpAssert(vpSameChain(S2, want), tag+"valid-extension-adopted-in-full")
			} else {
				// a batch that starts with already-known headers and comes from a
				// peer the client is not listening to may be ignored as a whole
				vpReach("unheard-overlapping-extension")
				vpAssert(vpOr(vpSameChain(S2, want), unchanged), tag+"unheard-overlapping-extension-adopted-or-ignored")
			}
		} else {
			vpReach("invalid-extension")
			okPrefix := false
			for k := 0; k <= firstBad; k++ {
				want := append(append([]wire.BlockHeader(nil), S...), vpDeref(R[:k])...)
				okPrefix = vpOr(okPrefix, vpSameChain(S2, want))
			}
			vpAssert(vpOr(okPrefix, cutBack), tag+"invalid-extension-keeps-accepted-chain")
			if cutBack && !unchanged {
				vpReach("cut-back-to-checkpoint")
			}
		}
	default:
		cmpWork := vpWorkOf(vpDeref(R)).Cmp(vpWorkOf(S[f+1:]))
		heavier := cmpWork > 0
		if (cmpWork > 0) != (len(R) > tip-f) || (cmpWork == 0) != (len(R) == tip-f) {
			vpReach("work-differs-from-length")
		}
		deepOK := f >= lastCpReached
		if allValid && heavier && deepOK {
			vpReach("heavier-valid-branch")
			want := append(append([]wire.BlockHeader(nil), S[:f+1]...), vpDeref(R[:cut])...)
			adopted := vpSameChain(S2, want)
			if listened {
				vpReach("reorganised")
				vpAssert(adopted, tag+"heavier-valid-branch-adopted-in-full")
			} else {
				vpAssert(vpOr(adopted, unchanged), tag+"unheard-branch-adopted-or-ignored")
			}
		} else {
			switch {
			case !deepOK:
				vpReach("too-deep-branch")
			case !allValid:
				vpReach("invalid-branch")
			case cmpWork == 0:
				vpReach("equal-work-branch")
			default:
				vpReach("lighter-branch")
			}
			if cpFailure && heavier && deepOK {
				vpAssert(vpOr(unchanged, cutBack), tag+"branch-failing-checkpoint-changes-nothing-or-cuts-back")
			} else {
				vpAssert(unchanged, tag+"rejected-branch-leaves-chain-byte-for-byte")
			}
		}
	}
	// the in-memory validation tail mirrors the persisted tip (internal; a
	// note, the next message shows whether it matters)
	if back := e.bm.headerList.Back(); back == nil || int(back.Height) != len(S2)-1 || back.Header != S2[len(S2)-1] {
		vpNote(tag + "header-list-differs-from-persisted-tip")
	}

	// the peer's connection teardown reaches the block manager now or later
	if !s.done[senderIdx] && vpDisconnected(sender) {
		if vpRange(tag+"doneDelivered", 0, 1) == 1 {
			s.done[senderIdx] = true
			e.bm.handleDonePeerMsg(s.plist, sender)
			vpQuiesce()
			s.checkStore(tag + "done:")
		}
	}
	return true
}

func vpDeref(hs []*wire.BlockHeader) []wire.BlockHeader {
	var out []wire.BlockHeader
	for _, h := range hs {
		out = append(out, *h)
	}
	return out
}

func vpNewHdrScn(maxCps int, bothAges bool) *vpHdrScn {
	n := vpParam("chain", 4)
	bt := vpRange("blockTip", vpParam("mintip", 1), vpParam("maxtip", 3))
	s := &vpHdrScn{}
	// checkpoints: up to maxCps heights in 1..n
	ncp := vpRange("checkpoints", 0, maxCps)
	lo := 1
	for k := 0; k < ncp; k++ {
		if lo > n {
			return nil
		}
		c := vpRange("checkpointAt", lo, n)
		s.cps = append(s.cps, c)
		lo = c + 1
	}
	opt := vpEnvOpt{grind: true}
	if bothAges && vpRange("recentChain", 0, 1) == 1 {
		opt.timeBase = vpNowUnix - 2*3600 // the tip is less than a day old: the client is current
	}
	opt.prep = func(e *vpBMEnv, p *chaincfg.Params) {
		for _, c := range s.cps {
			h := e.chain[c].BlockHash()
			p.Checkpoints = append(p.Checkpoints, chaincfg.Checkpoint{Height: int32(c), Hash: &h})
		}
	}
	params := vpRegtestParams()
	if iv := vpParam("retarget", 0); iv > 0 {
		// a network that retargets every iv blocks
		s.interval = iv
		params.PoWNoRetargeting = false
		params.ReduceMinDifficulty = false
		if vpParam("mindiff", 0) == 1 {
			s.mindiff = true
			params.ReduceMinDifficulty = true
			params.MinDiffReductionTime = 20 * time.Minute
		}
		params.TargetTimespan = time.Duration(iv) * params.TargetTimePerBlock
		opt.bitsFor = s.reqBits
	}
	ft := 0
	if vpParam("filtertips", 0) == 1 {
		// committed filter headers up to any height <= the block tip
		ft = vpRange("filterTip", 0, bt)
	}
	s.e = vpNewBMEnvOpt(n, bt, ft, params, opt)
	if s.e == nil {
		return nil
	}
	if vpParam("startedbefore", 0) == 1 && vpRange("headersHandledBefore", 0, 1) == 1 {
		// an earlier headers message has already been handled in this session
		// (the first header it pushed is remembered as the sync start)
		s.e.bm.startHeader = s.e.bm.headerList.Back()
	}
	s.plist = list.New()
	for i := range s.peers {
		s.peers[i] = vpMkServerPeer([]string{"10.0.0.1:8333", "10.0.0.2:8333"}[i])
		s.plist.PushBack(s.peers[i])
	}
	// the "no sync peer" start state is chosen when the first message turns
	// out to be a fork (the only shape it matters for)
	s.e.bm.syncPeer = s.peers[0]
	s.lazySync = true
	watch := s.e.bs.onMutate // records a filter store that is ahead of the block store
	s.e.bs.onMutate = func() {
		if watch != nil {
			watch()
		}
		s.checkStore("instant:")
	}
	s.checkStore("initial:")
	return s
}

// VerifH_C01_oneMessage: any single headers message on any start state.
func VerifH_C01_oneMessage() {
	s := vpNewHdrScn(vpParam("maxcps", 2), vpParam("onlyold", 0) == 0)
	if s == nil {
		return
	}
	s.oneMessage("m1:", vpMsgOpt{maxNew: vpParam("maxnew", 3), kinds: vpParam("kinds", 6), symTs: vpParam("symts", 1) == 1,
		knownPrefix: vpParam("knownprefix", 1) == 1, forksOnly: vpParam("forksonly", 0) == 1})
}

// VerifH_C01_twoMessages: histories of two messages (any peers, with the
// first sender's teardown delivered in between or not).  The first message
// extends the tip or forks one below it (with free proof of work, so any
// prefix of it may be valid); the second is arbitrary.
func VerifH_C01_twoMessages() {
	s := vpNewHdrScn(vpParam("maxcps2", 1), vpParam("recent2", 0) == 1)
	if s == nil {
		return
	}
	if !s.oneMessage("m1:", vpMsgOpt{maxNew: vpParam("maxnew2", 2), kinds: 0, nearTip: vpParam("neartip1", 1) == 1,
		forksOnly: vpParam("forksonly1", 0) == 1}) {
		return
	}
	s.oneMessage("m2:", vpMsgOpt{maxNew: vpParam("maxnew2", 2), kinds: vpParam("kinds2", 0), symTs: vpParam("symts2", 1) == 1,
		knownPrefix: vpParam("knownprefix2", 0) == 1, forksOnly: vpParam("forksonly2", 0) == 1})
}

// invMessage: an inventory message announcing one block (the tip, the
// stored block below it, a block an earlier message offered, or an unknown
// one followed by a transaction entry) or only a transaction, from either peer.  Inventory
// never changes what the client reports: the whole store and the in-memory
// validation tail must be exactly as before, and lookups still agree.
func (s *vpHdrScn) invMessage(tag string) {
	e := s.e
	S := append([]wire.BlockHeader(nil), e.bs.hdrs...)
	tip := len(S) - 1
	inv := wire.NewMsgInv()
	var hash chainhash.Hash
	kind := vpRange(tag+"invKind", 0, 4)
	switch kind {
	case 0:
		hash = S[tip].BlockHash()
	case 1:
		hash = S[tip-1].BlockHash() // tip >= 1 in every start state
	case 2:
		if len(s.offered) > 0 {
			hash = s.offered[len(s.offered)-1].BlockHash()
		} else {
			x := wire.BlockHeader{Version: 7, Bits: vpPowLimitBits, Timestamp: time.Unix(vpTimeBase+78, 0)}
			hash = x.BlockHash()
		}
	default:
		// a block nobody has seen
		x := wire.BlockHeader{Version: 8, Bits: vpPowLimitBits, Timestamp: time.Unix(vpTimeBase+79, 0)}
		hash = x.BlockHash()
	}
	if kind == 4 {
		// a transaction announcement only
		_ = inv.AddInvVect(wire.NewInvVect(wire.InvTypeTx, &chainhash.Hash{0x33}))
	} else {
		_ = inv.AddInvVect(wire.NewInvVect(wire.InvTypeBlock, &hash))
		if kind == 3 {
			_ = inv.AddInvVect(wire.NewInvVect(wire.InvTypeTx, &chainhash.Hash{0x33}))
		}
	}
	back := e.bm.headerList.Back()
	sender := s.peers[vpRange(tag+"invSender", 0, 1)]
	e.bm.handleInvMsg(&invMsg{inv: inv, peer: sender})
	vpQuiesce()
	vpReach("inventory-handled")
	if vpPeerSentOrZero(sender, "PushGetHeadersMsg") > 0 {
		vpNote("inventory-triggered-getheaders") // observable on the engine's peer recorder only
	}
	vpAssert(vpSameChain(e.bs.hdrs, S), tag+"inventory-changes-no-stored-header")
	vpAssert(e.bm.headerList.Back() == back, tag+"inventory-leaves-the-validation-tail-alone")
	s.checkStore(tag + "inv:")
	s.checkLookups(tag + "inv:")
}

func vpPeerSentOrZero(sp *ServerPeer, what string) int {
	if vpSymbolic() {
		return vpPeerSent(sp.Peer, what)
	}
	return 0
}

// VerifH_C01_invHistory: headers and inventory messages interleaved: an
// inventory message, a headers message near the tip, another inventory
// message, then any headers message.
func VerifH_C01_invHistory() {
	s := vpNewHdrScn(vpParam("maxcps2", 1), vpParam("recent2", 1) == 1)
	if s == nil {
		return
	}
	s.invMessage("i1:")
	if !s.oneMessage("m1:", vpMsgOpt{maxNew: vpParam("maxnew2", 2), kinds: 0, nearTip: true}) {
		return
	}
	s.invMessage("i2:")
	if vpParam("second", 1) == 1 {
		s.oneMessage("m2:", vpMsgOpt{maxNew: vpParam("maxnew2", 2), kinds: 0, symTs: false, knownPrefix: false})
	}
}
