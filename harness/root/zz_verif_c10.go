package neutrino

// C10 — GetUtxo reports the true fate of an outpoint, exactly once.
// The real UtxoScanner (batchManager goroutine, scanFromHeight,
// dequeueAtHeight, batchSpendReporter, deliver/Result) runs against a
// small symbolic chain; requests arrive before the scan or at symbolic
// call boundaries during it; the tip may grow during the scan.

import (
	"bytes"
	"errors"

	"github.com/btcsuite/btcd/btcutil/v2"
	"github.com/btcsuite/btcd/btcutil/v2/gcs"
	"github.com/btcsuite/btcd/btcutil/v2/gcs/builder"
	"github.com/btcsuite/btcd/chainhash/v2"
	"github.com/btcsuite/btcd/wire/v2"
	"github.com/lightninglabs/neutrino/headerfs"
)

type vpUtxoChain struct {
	blocks    []*wire.MsgBlock // index = height
	tip       int              // currently visible tip
	finalTip  int
	snapshots int
	hashes    []chainhash.Hash
	filters   []*gcs.Filter // model filters by height, built on demand
}

func (c *vpUtxoChain) heightOf(h *chainhash.Hash) int {
	for i := range c.hashes {
		if c.hashes[i] == *h {
			return i
		}
	}
	return -1
}

var vpScriptA = []byte{0x51, 0xa1}
var vpScriptB = []byte{0x51, 0xb2}
var vpScriptX = []byte{0x51, 0xcc}
var vpScriptC = []byte{0x51, 0xc3}

// touches: the block's filter contains the script (an output with that
// script is created, or an output with that script is spent).
func vpBlockTouches(blk *wire.MsgBlock, script []byte, funding *wire.MsgTx, fhash chainhash.Hash) bool {
	for _, tx := range blk.Transactions {
		for _, o := range tx.TxOut {
			if bytes.Equal(o.PkScript, script) {
				return true
			}
		}
		for _, in := range tx.TxIn {
			if in.PreviousOutPoint.Hash == fhash && int(in.PreviousOutPoint.Index) < len(funding.TxOut) {
				if bytes.Equal(funding.TxOut[in.PreviousOutPoint.Index].PkScript, script) {
					return true
				}
			}
		}
	}
	return false
}

// vpUtxoFilterSource: the chain source behind blockFilterMatches.
type vpUtxoFilterSource struct {
	*vpRescanChain
	get func(hash chainhash.Hash) (*gcs.Filter, error)
}

func (c *vpUtxoFilterSource) GetCFilter(hash chainhash.Hash, _ wire.FilterType, _ ...QueryOption) (*gcs.Filter, error) {
	return c.get(hash)
}

type vpUtxoReq struct {
	idx     uint32
	birth   uint32
	arrival int // 0 = before Start, k>0 = at the k-th chain callback
	req     *GetUtxoRequest
	script  []byte
	fund    *wire.MsgTx // the transaction the requested outpoint names
	fhash   chainhash.Hash
}

// VerifH_C10_scan: see file comment.
func VerifH_C10_scan() {
	nreq := vpParam("requests", 2)
	tip := 3
	grow := 0
	if vpParam("nogrow", 0) == 0 {
		// blocks that arrive between two tip snapshots of the running scan
		grow = vpRange("tipGrows", vpParam("mingrow", 0), vpParam("maxgrow", 1))
	}
	if grow >= 2 {
		vpReach("several-blocks-arrive-during-the-scan")
	}
	finalTip := tip + grow

	// ---- the chain ----
	funding := &wire.MsgTx{Version: 2, TxOut: []*wire.TxOut{
		{Value: int64(vpU32("valA")), PkScript: vpScriptA},
		{Value: int64(vpU32("valB")), PkScript: vpScriptB},
	}}
	funding.TxIn = []*wire.TxIn{{PreviousOutPoint: wire.OutPoint{Index: 7}}}
	fhash := funding.TxHash()
	vpAssume(fhash != chainhash.Hash{})
	fHeight := vpRange("fundingHeight", vpParam("minfunding", 0), 2) // 0 = the funding tx is nowhere on the chain
	// optionally a second funding transaction in the same block, before or
	// after the first (requests may name outputs of either)
	var funding2 *wire.MsgTx
	var fhash2 chainhash.Hash
	funding2First := false
	if vpParam("twofundings", 0) == 1 {
		funding2 = &wire.MsgTx{Version: 2, LockTime: 77, TxOut: []*wire.TxOut{{Value: 33, PkScript: vpScriptC}}}
		funding2.TxIn = []*wire.TxIn{{PreviousOutPoint: wire.OutPoint{Index: 8}}}
		fhash2 = funding2.TxHash()
		funding2First = vpRange("secondFundingTxFirst", 0, 1) == 1
	}
	chain := &vpUtxoChain{tip: tip, finalTip: finalTip}
	for h := 0; h <= finalTip; h++ {
		blk := &wire.MsgBlock{Header: wire.BlockHeader{Nonce: uint32(h), Bits: 1}}
		filler := &wire.MsgTx{Version: 2, LockTime: uint32(100 + h), TxOut: []*wire.TxOut{{Value: 1, PkScript: vpScriptX}}}
		filler.TxIn = []*wire.TxIn{{PreviousOutPoint: wire.OutPoint{Index: uint32(50 + h)}}}
		blk.Transactions = append(blk.Transactions, filler)
		if h == fHeight && h > 0 {
			switch {
			case funding2 != nil && funding2First:
				blk.Transactions = append(blk.Transactions, funding2, funding)
			case funding2 != nil:
				blk.Transactions = append(blk.Transactions, funding, funding2)
			default:
				blk.Transactions = append(blk.Transactions, funding)
			}
		}
		chain.blocks = append(chain.blocks, blk)
	}
	// up to two spends of distinct outputs of the funding tx
	nspend := vpRange("spends", 0, vpParam("maxspends", 1))
	var spendIdx [2]int
	var firstSpend *wire.MsgTx
	for k := 0; k < nspend; k++ {
		i := vpRange("spendOutput", 0, 1)
		if k == 1 && i == spendIdx[0] {
			return // one outpoint is spent at most once on a chain
		}
		spendIdx[k] = i
		if k == 1 && vpRange("sameSpendingTx", 0, 1) == 1 {
			// one transaction spends both outputs
			firstSpend.TxIn = append(firstSpend.TxIn, &wire.TxIn{PreviousOutPoint: wire.OutPoint{Hash: fhash, Index: uint32(i)}})
			continue
		}
		lo := 1
		if fHeight > 0 {
			lo = fHeight
		}
		sh := vpRange("spendHeight", lo, finalTip)
		sp := &wire.MsgTx{Version: 2, LockTime: uint32(900 + k)}
		// the spending input sits at input index 0 or 1
		pad := 1
		if vpParam("inputpos", 0) == 1 {
			pad = vpRange("spendInputPos", 0, 1)
		}
		if pad == 1 {
			sp.TxIn = append(sp.TxIn, &wire.TxIn{PreviousOutPoint: wire.OutPoint{Index: uint32(70 + k)}})
		}
		sp.TxIn = append(sp.TxIn, &wire.TxIn{PreviousOutPoint: wire.OutPoint{Hash: fhash, Index: uint32(i)}})
		sp.TxOut = []*wire.TxOut{{Value: 5, PkScript: vpScriptX}}
		chain.blocks[sh].Transactions = append(chain.blocks[sh].Transactions, sp)
		if k == 0 {
			firstSpend = sp
		}
	}
	for h := 0; h <= finalTip; h++ {
		chain.hashes = append(chain.hashes, chain.blocks[h].BlockHash())
	}

	// ---- requests ----
	reqs := make([]*vpUtxoReq, nreq)
	for r := 0; r < nreq; r++ {
		q := &vpUtxoReq{idx: uint32(vpRange("reqOutput", 0, 2)), fund: funding, fhash: fhash}
		if vpParam("birthatfunding", 0) == 1 && fHeight > 0 {
			q.birth = uint32(fHeight) // every request starts at the block that creates the outputs
		} else {
			q.birth = uint32(vpRange("reqBirth", 1, 3))
		}
		q.arrival = vpRange("reqArrival", 0, vpParam("arrivals", 2))
		if funding2 != nil && vpRange("reqNamesSecondFundingTx", 0, 1) == 1 {
			q.fund, q.fhash = funding2, fhash2
			q.idx = uint32(vpRange("reqOutput2", 0, 1))
			q.script = vpScriptC
			reqs[r] = q
			continue
		}
		switch q.idx {
		case 0:
			q.script = vpScriptA
		case 1:
			q.script = vpScriptB
		default:
			q.script = vpScriptA // out-of-range output index: the caller's script is whatever it believes
		}
		reqs[r] = q
	}

	// ---- the scanner with chain callbacks ----
	var scanner *UtxoScanner
	callbacks := 0
	stopAt := 0
	stopSignal := make(chan struct{})
	stopped := make(chan struct{})
	if vpParam("withStop", 0) == 1 {
		stopAt = vpRange("stopAt", 1, vpParam("stopPoints", 4))
	}
	stopRequested := false
	// one chain callback may fail once (a transient store or network error)
	failAt := 0
	if vpParam("faults", 0) == 1 {
		failAt = vpRange("callbackFailsAt", 0, vpParam("faultPoints", 6))
	}
	errInjected := errors.New("vp: injected chain callback failure")
	faultHit := false
	fails := func() bool {
		if failAt != 0 && callbacks == failAt && !faultHit {
			faultHit = true
			vpReach("chain-callback-failed")
			return true
		}
		return false
	}
	enqueueDue := func() {
		callbacks++
		if stopAt != 0 && callbacks == stopAt {
			// Stop is called from another goroutine exactly now
			stopRequested = true
			stopSignal <- struct{}{}
		}
		for _, q := range reqs {
			if q.req == nil && q.arrival != 0 && q.arrival*3 == callbacks {
				req, err := scanner.Enqueue(&InputWithScript{OutPoint: wire.OutPoint{Hash: q.fhash, Index: q.idx}, PkScript: q.script}, q.birth, nil)
				if err == nil {
					q.req = req
				}
			}
		}
	}
	vpModelFilters = nil
	filterSrc := &vpUtxoFilterSource{vpRescanChain: &vpRescanChain{}, get: func(hash chainhash.Hash) (*gcs.Filter, error) {
		enqueueDue()
		if fails() {
			return nil, errInjected
		}
		h := chain.heightOf(&hash)
		if h < 0 {
			return nil, errors.New("vp: unknown block")
		}
		for len(chain.filters) <= h {
			chain.filters = append(chain.filters, nil)
		}
		if chain.filters[h] == nil {
			var scripts [][]byte
			for _, cand := range [][]byte{vpScriptA, vpScriptB, vpScriptC, vpScriptX} {
				if vpBlockTouches(chain.blocks[h], cand, funding, fhash) {
					scripts = append(scripts, cand)
				}
			}
			f, _ := gcs.FromNBytes(builder.DefaultP, builder.DefaultM, []byte{1, byte(len(vpModelFilters))})
			vpModelFilters = append(vpModelFilters, &vpModelFilter{f: f, scripts: scripts})
			chain.filters[h] = f
		}
		return chain.filters[h], nil
	}}
	cfg := &UtxoScannerConfig{
		BestSnapshot: func() (*headerfs.BlockStamp, error) {
			chain.snapshots++
			if chain.snapshots >= 2 {
				chain.tip = chain.finalTip
			}
			return &headerfs.BlockStamp{Height: int32(chain.tip), Hash: chain.hashes[chain.tip]}, nil
		},
		GetBlockHash: func(height int64) (*chainhash.Hash, error) {
			enqueueDue()
			if fails() {
				return nil, errInjected
			}
			if height < 0 || int(height) > chain.tip {
				return nil, errors.New("vp: height beyond tip")
			}
			h := chain.hashes[height]
			return &h, nil
		},
		// wired as in NewChainService: the real blockFilterMatches over a chain
		// source whose GetCFilter serves model filters (exactly the scripts the
		// block creates or spends) or fails
		BlockFilterMatches: func(ro *rescanOptions, hash *chainhash.Hash) (bool, error) {
			matches, _, err := blockFilterMatches(filterSrc, ro, hash)
			return matches, err
		},
		GetBlock: func(hash chainhash.Hash, _ ...QueryOption) (*btcutil.Block, error) {
			enqueueDue()
			if fails() {
				return nil, errInjected
			}
			h := chain.heightOf(&hash)
			if h < 0 {
				return nil, errors.New("vp: unknown block")
			}
			return btcutil.NewBlock(chain.blocks[h]), nil
		},
	}
	scanner = NewUtxoScanner(cfg)
	for _, q := range reqs {
		if q.arrival == 0 {
			req, err := scanner.Enqueue(&InputWithScript{OutPoint: wire.OutPoint{Hash: q.fhash, Index: q.idx}, PkScript: q.script}, q.birth, nil)
			vpAssert(err == nil, "enqueue-ok")
			q.req = req
		}
	}
	vpOpt("timers", 8)
	if stopAt != 0 {
		go func() {
			<-stopSignal
			scanner.Stop()
			close(stopped)
		}()
	}
	scanner.Start()
	vpQuiesce()
	// requests that were to arrive at a callback that never happened arrive now
	for _, q := range reqs {
		if q.req == nil {
			req, err := scanner.Enqueue(&InputWithScript{OutPoint: wire.OutPoint{Hash: q.fhash, Index: q.idx}, PkScript: q.script}, q.birth, nil)
			if err != nil {
				vpAssert(stopRequested && err == ErrShuttingDown, "late-enqueue-refused-only-after-stop")
				continue
			}
			q.req = req
			vpReach("arrived-after-scan")
		}
	}
	vpQuiesce()
	if stopAt != 0 {
		if !stopRequested {
			// the chosen callback never happened: stop now
			stopRequested = true
			stopSignal <- struct{}{}
		}
		<-stopped // Stop itself must return
		vpReach("stopped")
	}

	// ---- every caller gets exactly the reference answer ----
	never := make(chan struct{})
	for _, q := range reqs {
		if q.req == nil {
			continue // refused at Enqueue after Stop
		}
		report, err := q.req.Result(never) // a caller left waiting shows up as a deadlock
		if stopRequested {
			// after Stop a caller may get the shutdown error instead of an answer
			vpAssert(err == nil || err == ErrShuttingDown, "answered-or-shutdown-error")
		} else if faultHit {
			// the scan could not complete: the caller gets that error, or the
			// right answer from a later scan
			vpAssert(err == nil || err == errInjected, "answered-or-scan-error")
			if err != nil {
				vpReach("scan-error-reported")
				continue
			}
		} else {
			vpAssert(err == nil, "answered-without-error")
		}
		if err != nil {
			vpReach("shutdown-error")
			continue
		}
		// reference: earliest spend at/after the birth height
		var wantTx *wire.MsgTx
		wantIn, wantH := 0, 0
		for h := int(q.birth); h <= finalTip && wantTx == nil; h++ {
			for _, tx := range chain.blocks[h].Transactions {
				for i, in := range tx.TxIn {
					if wantTx == nil && in.PreviousOutPoint.Hash == q.fhash && in.PreviousOutPoint.Index == q.idx {
						wantTx, wantIn, wantH = tx, i, h
					}
				}
			}
		}
		switch {
		case wantTx != nil:
			vpReach("expect-spend")
			vpAssert(report != nil && report.SpendingTx == wantTx, "reports-the-earliest-spending-tx")
			if report != nil && report.SpendingTx != nil {
				vpAssert(int(report.SpendingInputIndex) == wantIn && int(report.SpendingTxHeight) == wantH, "reports-spend-index-and-height")
			}
		case fHeight > 0 && int(q.birth) == fHeight && int(q.idx) < len(q.fund.TxOut):
			vpReach("expect-unspent-output")
			if q.fund == funding2 {
				vpReach("expect-unspent-output-of-the-second-funding-tx")
			}
			vpAssert(report != nil && report.SpendingTx == nil && report.Output == q.fund.TxOut[q.idx], "reports-the-output-created-in-the-start-block")
			if report != nil && report.Output != nil {
				vpAssert(int(report.BlockHeight) == fHeight && report.BlockHash != nil && *report.BlockHash == chain.hashes[fHeight], "reports-output-block")
			}
		default:
			vpReach("expect-empty")
			vpAssert(report == nil, "reports-empty-when-not-found")
		}
	}
}
