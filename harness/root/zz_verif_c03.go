package neutrino

// C03 — committed filter headers resist false filter headers: the real
// getUncheckpointedCFHeaders -> detectBadPeers ->
// resolveFilterMismatchFromBlock path with 2-3 peers of symbolic
// behaviour and every map iteration order; and the checkpointed query's
// response handler.

import (
	"github.com/btcsuite/btcd/btcutil/v2"
	"github.com/btcsuite/btcd/btcutil/v2/gcs"
	"github.com/btcsuite/btcd/btcutil/v2/gcs/builder"
	"github.com/btcsuite/btcd/chainhash/v2"
	"github.com/btcsuite/btcd/peer"
	"github.com/btcsuite/btcd/wire/v2"
	"github.com/lightninglabs/neutrino/banman"
	"github.com/lightninglabs/neutrino/query"
)

// peer behaviours
const (
	vpHonest         = iota
	vpLieHashOnly    // advertises a false filter hash, serves the true filter (hash mismatch)
	vpLieInvalid     // advertises and serves a self-consistent filter that omits a script
	vpLieNotServed   // advertises a false filter hash, does not serve the filter
	vpSilent         // does not answer at all
	vpLieWrongPrev   // answers with a wrong previous filter header
	vpOtherRange     // answers truthfully, but for a stop block other than the requested one (an older known block)
	vpNumBehaviours
)

type vpCFPeer struct {
	addr      string
	behaviour int
	lieAt     int // index (0-based from filterTip+1) at which it lies
	sp        *ServerPeer
}

func vpFilterData(height int, marker byte) []byte {
	// varint N=1, then payload: marker byte, height
	return []byte{1, marker, byte(height)}
}

func vpHashOfFilter(data []byte) chainhash.Hash {
	f, err := gcs.FromNBytes(builder.DefaultP, builder.DefaultM, data)
	if err != nil {
		panic("vp: model filter does not parse")
	}
	h, _ := builder.GetFilterHash(f)
	return h
}

// VerifH_C03_uncheckpointed: see the file comment.
func VerifH_C03_uncheckpointed() {
	vpOpt("maporder", vpParam("maporder", 1))
	n := 3
	ft := vpRange("filterTip", 0, 1)
	m := vpRange("missing", 1, vpParam("maxmissing", 2)) // filter headers to fetch
	bt := ft + m
	if bt > n {
		return
	}
	e := vpNewBMEnv(n, bt, ft, vpRegtestParams())
	if e == nil {
		return
	}
	// the true filters of the blocks and a false one per lie
	trueData := make([][]byte, n+1)
	for h := 1; h <= n; h++ {
		trueData[h] = vpFilterData(h, 0x11)
	}
	npeers := vpParam("peers", 3)
	addrs := []string{"10.0.0.1:8333", "10.0.0.2:8333", "10.0.0.3:8333"}
	peers := make([]*vpCFPeer, npeers)
	nhonest := 0
	for p := 0; p < npeers; p++ {
		beh := vpRange("behaviour", 0, vpParam("behaviours", vpNumBehaviours)-1)
		if p == 0 {
			if beh != vpHonest {
				return // at least one honest peer (the first one, w.l.o.g.)
			}
		}
		peers[p] = &vpCFPeer{addr: addrs[p], behaviour: beh, sp: &ServerPeer{Peer: &peer.Peer{}}}
		if beh == vpLieHashOnly || beh == vpLieInvalid || beh == vpLieNotServed {
			peers[p].lieAt = vpRange("lieAt", 0, m-1)
		}
		if beh == vpHonest {
			nhonest++
		}
		vpPeerSet(peers[p].sp.Peer, "Addr", addrs[p])
	}
	// what each peer advertises / serves
	advertised := func(p *vpCFPeer, idx int) chainhash.Hash {
		h := ft + 1 + idx
		switch p.behaviour {
		case vpLieHashOnly, vpLieNotServed:
			if idx == p.lieAt {
				return vpHashOfFilter(vpFilterData(h, 0x77)) // some other filter's hash
			}
		case vpLieInvalid:
			if idx == p.lieAt {
				return vpHashOfFilter(vpFilterData(h, 0xBA))
			}
		}
		return vpHashOfFilter(trueData[h])
	}
	served := func(p *vpCFPeer, h int) []byte {
		idx := h - ft - 1
		switch p.behaviour {
		case vpLieInvalid:
			if idx == p.lieAt {
				return vpFilterData(h, 0xBA)
			}
		case vpLieNotServed:
			if idx == p.lieAt {
				return nil
			}
		case vpSilent:
			return nil
		}
		return trueData[h]
	}
	e.bm.cfg.queryAllPeers = func(queryMsg wire.Message,
		checkResponse func(sp *ServerPeer, resp wire.Message, quit chan<- struct{}, peerQuit chan<- struct{}),
		options ...QueryOption) {

		quit := make(chan struct{})
		for _, p := range peers {
			peerQuit := make(chan struct{})
			switch q := queryMsg.(type) {
			case *wire.MsgGetCFHeaders:
				if p.behaviour == vpSilent {
					continue
				}
				resp := wire.NewMsgCFHeaders()
				resp.FilterType = q.FilterType
				resp.StopHash = q.StopHash
				resp.PrevFilterHeader = e.filters[ft]
				if p.behaviour == vpLieWrongPrev {
					resp.PrevFilterHeader = chainhash.Hash{0xde, 0xad}
				}
				if p.behaviour == vpOtherRange {
					// right type, right number of (true) hashes, right previous
					// header, but the stop hash of the block below the requested one
					resp.StopHash = e.chain[bt-1].BlockHash()
					vpReach("answer-for-another-stop-block")
				}
				for idx := 0; idx < m; idx++ {
					h := advertised(p, idx)
					resp.AddCFHash(&h)
				}
				checkResponse(p.sp, resp, quit, peerQuit)
			case *wire.MsgGetCFilters:
				h := int(q.StartHeight)
				d := served(p, h)
				if d == nil {
					continue
				}
				checkResponse(p.sp, wire.NewMsgCFilter(q.FilterType, &q.StopHash, d), quit, peerQuit)
			}
		}
	}
	e.bm.cfg.GetBlock = func(h chainhash.Hash, _ ...QueryOption) (*btcutil.Block, error) {
		for i := range e.chain {
			if e.chain[i].BlockHash() == h {
				return btcutil.NewBlock(&wire.MsgBlock{Header: e.chain[i]}), nil
			}
		}
		return nil, query.ErrWorkManagerShuttingDown
	}

	err := e.bm.getUncheckpointedCFHeaders(e.fs, wire.GCSFilterRegular)
	vpQuiesce()

	// the honest chain of filter headers
	want := []chainhash.Hash{e.filters[ft]}
	for idx := 0; idx < m; idx++ {
		want = append(want, vpFilterHeaderAfter(vpHashOfFilter(trueData[ft+1+idx]), want[idx]))
	}
	// 1. nothing false is ever committed
	vpAssert(!e.ftAboveBt, "filter-chain-never-ahead-of-block-chain")
	for i := ft + 1; i < len(e.fs.hashes); i++ {
		vpAssert(e.fs.hashes[i] == want[i-ft], "committed-filter-header-is-the-honest-one")
	}
	if err == nil {
		vpReach("round-committed")
		vpAssert(len(e.fs.hashes)-1 == bt, "a-successful-round-commits-up-to-the-block-tip")
	} else {
		vpReach("round-failed")
		vpAssert(len(e.fs.hashes)-1 == ft, "a-failed-round-commits-nothing")
	}
	// 2. the honest peers are never banned
	for _, p := range peers {
		if p.behaviour == vpHonest || p.behaviour == vpSilent {
			for _, b := range e.bans {
				vpAssert(b.addr != p.addr, "honest-or-silent-peer-not-banned")
			}
		}
	}
	// 3. when the round commits, every peer that answered with a provable lie is banned
	if err == nil {
		for _, p := range peers {
			switch p.behaviour {
			case vpLieHashOnly, vpLieInvalid, vpLieNotServed:
				vpReach("liar-present-in-committed-round")
				vpAssert(e.banned(p.addr, banman.InvalidFilterHeader), "provable-liar-banned-when-round-commits")
			case vpLieWrongPrev:
				vpAssert(e.banned(p.addr, banman.InvalidFilterHeader), "wrong-prev-header-peer-banned")
			}
		}
	}
}

// VerifH_C03_checkpointedResponse: the checkpointed query's handler
// delivers a response iff it matches the request and hashes from the
// previous checkpoint to the checkpoint ending the request's range (a
// request spans up to maxCFCheckptsPerQuery = 2 intervals); a chain
// mismatch bans the peer.
func VerifH_C03_checkpointedResponse() {
	e := vpNewBMEnv(2, 2, 0, vpRegtestParams())
	if e == nil {
		return
	}
	L := vpRange("checkpoints", 1, 4)
	idx := 2 * vpRange("requestIndex", 0, 1)
	if idx >= L {
		return
	}
	cps := make([]*chainhash.Hash, L)
	for i := range cps {
		h := vpSymHash("checkpoint")
		cps[i] = &h
	}
	prevCP := e.bm.genesisHeader
	if idx > 0 {
		prevCP = *cps[idx-1]
	}
	nextIdx := idx + 1
	if nextIdx > L-1 {
		nextIdx = L - 1
	}
	// the honest response: k filter hashes whose chain from prevCP ends at cps[nextIdx]
	k := vpRange("hashes", 1, 2)
	var hashes []*chainhash.Hash
	end := prevCP
	for j := 0; j < k; j++ {
		fh := vpSymHash("filterHash")
		hashes = append(hashes, &fh)
		end = vpFilterHeaderAfter(fh, end)
	}
	cps[nextIdx] = &end
	stop := chainhash.Hash{0x51}
	stopOther := chainhash.Hash{0x52}
	q := &checkpointedCFHeadersQuery{
		blockMgr:    e.bm,
		checkpoints: cps,
		stopHashes:  map[chainhash.Hash]uint32{stop: uint32(idx), stopOther: 0},
		headerChan:  make(chan *wire.MsgCFHeaders, 4),
	}
	req := wire.NewMsgGetCFHeaders(wire.GCSFilterRegular, 1, &stop)
	resp := wire.NewMsgCFHeaders()
	resp.FilterType = wire.GCSFilterRegular
	resp.StopHash = stop
	resp.PrevFilterHeader = prevCP
	for _, h := range hashes {
		resp.AddCFHash(h)
	}
	var msg wire.Message = resp
	kind := vpRange("kind", 0, 5)
	expectDeliver, expectBan := false, false
	switch kind {
	case 0: // the honest response
		expectDeliver = true
	case 1: // one filter hash altered: the chain no longer reaches the checkpoint
		alt := vpSymHash("altered")
		vpAssume(alt != *hashes[0])
		resp.FilterHashes[0] = &alt
		expectBan = true
	case 2: // wrong previous header
		resp.PrevFilterHeader = vpSymHash("wrongPrev")
		vpAssume(resp.PrevFilterHeader != prevCP)
		expectBan = true
	case 3: // a stop hash other than the request's
		resp.StopHash = chainhash.Hash{0x99}
	case 4: // wrong filter type
		resp.FilterType = wire.FilterType(9)
	case 5: // not a cfheaders message
		msg = wire.NewMsgPing(1)
	}
	p := q.handleResponse(req, msg, "10.0.0.9:8333")
	delivered := len(q.headerChan) > 0
	vpAssert(delivered == expectDeliver, "delivered-iff-matches-request-and-checkpoints")
	vpAssert(p.Finished == expectDeliver, "finished-iff-delivered")
	vpAssert(e.banned("10.0.0.9:8333", banman.InvalidFilterHeaderCheckpoint) == expectBan, "checkpoint-mismatch-bans-the-peer")
	if !expectBan {
		vpAssert(len(e.bans) == 0, "no-ban-without-a-provable-mismatch")
	}
	if delivered {
		vpReach("delivered")
	}
	if expectBan {
		vpReach("mismatch")
	}
}
