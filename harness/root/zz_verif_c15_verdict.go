package neutrino

// C15 (verdict part): sendTransaction fails only if every replying peer
// rejected the transaction or the share of replying peers calling it
// invalid reaches the threshold.  queryAllPeers is replaced (source
// overlay) by a stub that delivers each peer's scripted messages to the
// real response closure.

import (
	"github.com/btcsuite/btcd/peer"
	"github.com/btcsuite/btcd/wire/v2"
	"github.com/lightninglabs/neutrino/pushtx"
)

// per-peer scripts
const (
	vpTxSilent        = iota // never asks for the transaction
	vpTxAccept               // getdata, then nothing (accepted)
	vpTxAcceptTwice          // getdata sent twice (must be de-duplicated)
	vpTxForeignReject        // getdata, then a reject (invalid) that names another transaction: says nothing about this one
	vpTxRejectInvalid        // getdata, then reject: invalid
	vpTxRejectMempool        // getdata, then reject: already in mempool
	vpTxRejectFee            // getdata, then reject: insufficient fee
	vpTxNumScripts
)

var vpTxScripts []int

type vpAllPeersFn func(wire.Message,
	func(sp *ServerPeer, resp wire.Message, quit chan<- struct{}, peerQuit chan<- struct{}), ...QueryOption)

// vpQueryAllPeersHook is what `s.queryAllPeers(` in query.go is rewritten to call.
func vpQueryAllPeersHook(s *ChainService) vpAllPeersFn {
	return func(queryMsg wire.Message,
		checkResponse func(sp *ServerPeer, resp wire.Message, quit chan<- struct{}, peerQuit chan<- struct{}),
		options ...QueryOption) {

		inv, ok := queryMsg.(*wire.MsgInv)
		if !ok || len(inv.InvList) != 1 {
			return
		}
		txHash := inv.InvList[0].Hash
		quit := make(chan struct{})
		for i, script := range vpTxScripts {
			sp := &ServerPeer{Peer: &peer.Peer{}, server: s}
			vpPeerSet(sp.Peer, "ID", int32(i+1))
			vpPeerSet(sp.Peer, "Addr", "10.0.0.1:8333")
			peerQuit := make(chan struct{})
			getData := wire.NewMsgGetData()
			getData.AddInvVect(inv.InvList[0])
			reject := func(code wire.RejectCode, reason string) *wire.MsgReject {
				r := wire.NewMsgReject(wire.CmdTx, code, reason)
				r.Hash = txHash
				return r
			}
			switch script {
			case vpTxSilent:
			case vpTxAccept:
				checkResponse(sp, getData, quit, peerQuit)
			case vpTxAcceptTwice:
				checkResponse(sp, getData, quit, peerQuit)
				checkResponse(sp, getData, quit, peerQuit)
			case vpTxForeignReject:
				checkResponse(sp, getData, quit, peerQuit)
				other := reject(wire.RejectInvalid, "bad-txns-inputs-missingorspent")
				other.Hash[3] ^= 0x21
				checkResponse(sp, other, quit, peerQuit)
			case vpTxRejectInvalid:
				checkResponse(sp, getData, quit, peerQuit)
				checkResponse(sp, reject(wire.RejectInvalid, "bad-txns-inputs-missingorspent"), quit, peerQuit)
			case vpTxRejectMempool:
				checkResponse(sp, getData, quit, peerQuit)
				checkResponse(sp, reject(wire.RejectDuplicate, "txn-already-in-mempool"), quit, peerQuit)
			case vpTxRejectFee:
				checkResponse(sp, getData, quit, peerQuit)
				checkResponse(sp, reject(wire.RejectInsufficientFee, "insufficient fee"), quit, peerQuit)
			}
		}
	}
}

// VerifH_C15_verdict: every assignment of scripts to up to 5 peers.
func VerifH_C15_verdict() {
	vpOpt("clock", 1)
	npeers := vpRange("peers", 0, vpParam("maxpeers", 5))
	vpTxScripts = nil
	replied, rejectedN, invalid := 0, 0, 0
	for i := 0; i < npeers; i++ {
		sc := vpRange("script", 0, vpTxNumScripts-1)
		// peers are interchangeable: only non-decreasing script sequences
		if i > 0 && sc < vpTxScripts[i-1] {
			return
		}
		vpTxScripts = append(vpTxScripts, sc)
		if sc != vpTxSilent {
			replied++
		}
		if sc >= vpTxRejectInvalid {
			rejectedN++
		}
		if sc == vpTxRejectInvalid {
			invalid++
		}
		if sc == vpTxForeignReject {
			vpReach("reject-for-another-transaction")
		}
	}
	s := &ChainService{quit: make(chan struct{}), broadcastTimeout: 1}
	tx := &wire.MsgTx{Version: 2, LockTime: 77, TxIn: []*wire.TxIn{{PreviousOutPoint: wire.OutPoint{Index: 3}}},
		TxOut: []*wire.TxOut{{Value: 1, PkScript: []byte{0x51}}}}
	err := s.sendTransaction(tx)

	// reference verdict, straight from the statement (default threshold 0.6)
	allRejected := replied > 0 && rejectedN == replied
	thresholdHit := rejectedN > 0 && replied > 0 && invalid*10 >= replied*6
	wantFail := allRejected || thresholdHit
	if wantFail {
		vpReach("expect-failure")
		vpAssert(err != nil, "fails-when-all-repliers-reject-or-invalid-share-reaches-threshold")
		if thresholdHit && !allRejected {
			vpReach("threshold-exactly-or-above")
			vpAssert(pushtx.IsBroadcastError(err, pushtx.Invalid), "threshold-failure-reports-invalid")
		}
	} else {
		vpReach("expect-success")
		vpAssert(err == nil, "succeeds-otherwise")
	}
	if invalid*10 == replied*6 && replied > 0 && rejectedN < replied {
		vpReach("share-exactly-at-threshold")
	}
}
