package neutrino

// Shared infrastructure for the blockManager harnesses (C01, C02, C03,
// C19): a real blockManager built with newBlockManager on slice-model
// header stores, an event collector on the real notification channel, a
// ban recorder and an honest chain builder.

import (
	"time"

	"github.com/btcsuite/btcd/chaincfg/v2"
	"github.com/btcsuite/btcd/chainhash/v2"
	"github.com/btcsuite/btcd/wire/v2"
	"github.com/lightninglabs/neutrino/banman"
	"github.com/lightninglabs/neutrino/blockntfns"
)

type vpBan struct {
	addr   string
	reason banman.Reason
}

type vpEvent struct {
	ntfn blockntfns.BlockNtfn
	bt   int // block-store tip height when the event was delivered
	ft   int // filter-store tip height when the event was delivered
	best int // tip a backlog request made at that moment is computed up to
}

type vpBMEnv struct {
	bm      *blockManager
	bs      *vpBlockStore
	fs      *vpFilterStore
	chain   []wire.BlockHeader // the honest chain, index = height
	filters []chainhash.Hash   // committed filter headers of the honest chain
	events  []vpEvent
	bans    []vpBan
	// ftAboveBt is set as soon as the filter store is observed above the block store
	ftAboveBt bool
	mutations int
	// quitOnDisconnect: the client is being shut down while a rollback is in
	// progress - when the first disconnected event arrives the quit channel is
	// closed and nobody listens for events any more
	quitOnDisconnect bool
}

const vpBaseTime = 1296688602

// vpEnvOpt: optional extras for vpNewBMEnvOpt.
type vpEnvOpt struct {
	timeBase int64 // timestamp of the genesis header (0 = vpBaseTime)
	grind    bool  // give every honest header a nonce that passes the proof-of-work predicate
	// bitsFor gives the difficulty bits of the honest header with timestamp ts on top of chain (nil: vpPowLimitBits)
	bitsFor func(chain []wire.BlockHeader, ts int64) uint32
	// genesisFilter: the filter header of the genesis block (nil: the constant 0x0f00..)
	genesisFilter *chainhash.Hash
	// filterFor gives the committed filter header of height h on top of prev (nil: an opaque constant per height)
	filterFor func(h int, prev chainhash.Hash) chainhash.Hash
	// prep runs after the honest chain is built and before newBlockManager
	// (to place checkpoints on chain hashes)
	prep func(e *vpBMEnv, p *chaincfg.Params)
}

var vpTimeBase int64 = vpBaseTime

func vpHonestHeader(prev *wire.BlockHeader, height int, salt uint32) wire.BlockHeader {
	h := wire.BlockHeader{Version: 4, Bits: vpPowLimitBits, Timestamp: time.Unix(vpTimeBase+int64(height)*600, 0), Nonce: salt}
	if prev != nil {
		h.PrevBlock = prev.BlockHash()
	}
	return h
}

func vpRegtestParams() chaincfg.Params {
	return chaincfg.Params{
		Name:                     "vp",
		Net:                      wire.TestNet,
		PowLimit:                 vpPowLimit,
		PowLimitBits:             vpPowLimitBits,
		PoWNoRetargeting:         true,
		TargetTimespan:           time.Hour * 24 * 14,
		TargetTimePerBlock:       time.Minute * 10,
		RetargetAdjustmentFactor: 4,
		BIP0034Height:            100000000,
		BIP0065Height:            100000000,
		BIP0066Height:            100000000,
	}
}

// vpNewBMEnv builds an honest chain of n headers above genesis, stores
// with block tip bt and filter tip ft (ft <= bt <= n) and a blockManager.
func vpNewBMEnv(n, bt, ft int, params chaincfg.Params) *vpBMEnv {
	return vpNewBMEnvOpt(n, bt, ft, params, vpEnvOpt{})
}

func vpNewBMEnvOpt(n, bt, ft int, params chaincfg.Params, opt vpEnvOpt) *vpBMEnv {
	// the clock only feeds progress logging here: concrete (2023-11-14 + k s)
	vpOpt("clock", 1)
	vpTimeBase = vpBaseTime
	if opt.timeBase != 0 {
		vpTimeBase = opt.timeBase
	}
	e := &vpBMEnv{}
	g := vpHonestHeader(nil, 0, 0)
	if opt.grind {
		vpGrind(&g, true)
	}
	e.chain = []wire.BlockHeader{g}
	e.filters = []chainhash.Hash{{0x0f}}
	if opt.genesisFilter != nil {
		e.filters[0] = *opt.genesisFilter
	}
	for h := 1; h <= n; h++ {
		nh := vpHonestHeader(&e.chain[h-1], h, uint32(h))
		if opt.bitsFor != nil {
			nh.Bits = opt.bitsFor(e.chain, nh.Timestamp.Unix())
		}
		if opt.grind {
			vpGrind(&nh, true)
		}
		e.chain = append(e.chain, nh)
		var f chainhash.Hash
		f[0], f[1] = 0xf0, byte(h)
		if opt.filterFor != nil {
			f = opt.filterFor(h, e.filters[h-1])
		}
		e.filters = append(e.filters, f)
	}
	gh := g.BlockHash()
	params.GenesisBlock = &wire.MsgBlock{Header: g}
	params.GenesisHash = &gh
	e.bs = &vpBlockStore{hdrs: append([]wire.BlockHeader(nil), e.chain[:bt+1]...), ctl: &vpWriteCtl{}}
	e.fs = &vpFilterStore{hashes: append([]chainhash.Hash(nil), e.filters[:ft+1]...), ctl: &vpWriteCtl{}, blocks: e.bs,
		tipViaIndex: true, tipBlk: e.chain[ft].BlockHash()}
	watch := func() {
		e.mutations++
		if len(e.fs.hashes) > len(e.bs.hdrs) {
			e.ftAboveBt = true
		}
	}
	e.bs.onMutate = watch
	e.fs.onMutate = watch
	if opt.prep != nil {
		opt.prep(e, &params)
	}
	cfg := &blockManagerCfg{
		ChainParams:      params,
		BlockHeaders:     e.bs,
		RegFilterHeaders: e.fs,
		TimeSource:       vpTimeSource{},
		BanPeer: func(addr string, reason banman.Reason) error {
			e.bans = append(e.bans, vpBan{addr, reason})
			return nil
		},
	}
	bm, err := newBlockManager(cfg)
	if err != nil {
		vpAssert(false, "block-manager-created")
		return nil
	}
	e.bm = bm
	// the subscription manager's side of the notification channel
	go func() {
		for {
			select {
			case n := <-bm.blockNtfnChan:
				_, best, _ := bm.NotificationsSinceHeight(0)
				e.events = append(e.events, vpEvent{ntfn: n, bt: len(e.bs.hdrs) - 1, ft: len(e.fs.hashes) - 1, best: int(best)})
				if _, isDisc := n.(*blockntfns.Disconnected); isDisc && e.quitOnDisconnect {
					vpReach("shutdown-requested-during-a-rollback")
					close(bm.quit)
					return
				}
			case <-bm.quit:
				return
			}
		}
	}()
	return e
}

func (e *vpBMEnv) banned(addr string, reason banman.Reason) bool {
	for _, b := range e.bans {
		if b.addr == addr && b.reason == reason {
			return true
		}
	}
	return false
}

// vpFilterHeaderAfter is BIP157's header = dsha256(filterHash || prevHeader).
func vpFilterHeaderAfter(filterHash, prev chainhash.Hash) chainhash.Hash {
	return chainhash.DoubleHashH(append(filterHash[:], prev[:]...))
}
