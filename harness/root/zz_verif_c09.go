package neutrino

// C09 — rescan callbacks form a consistent chain walk and miss no
// relevant transaction.  The real rescanState.rescan loop (catch-up walk,
// subscription, retry queue, filter/block matching on watched outpoints)
// runs as a goroutine against a model chain source whose chain grows and
// reorganises at symbolic moments, with symbolic filter/block fetch
// failures.

import (
	"bytes"
	"errors"
	"time"

	"github.com/btcsuite/btcd/btcutil/v2"
	"github.com/btcsuite/btcd/btcutil/v2/gcs"
	"github.com/btcsuite/btcd/btcutil/v2/gcs/builder"
	"github.com/btcsuite/btcd/chaincfg/v2"
	"github.com/btcsuite/btcd/chainhash/v2"
	"github.com/btcsuite/btcd/rpcclient"
	"github.com/btcsuite/btcd/wire/v2"
	"github.com/lightninglabs/neutrino/blockntfns"
	"github.com/lightninglabs/neutrino/headerfs"
)

type vpModelFilter struct {
	f       *gcs.Filter
	scripts [][]byte
}

var vpModelFilters []*vpModelFilter

// vpFilterMatchAny is the model of (*gcs.Filter).MatchAny: a model filter
// matches iff it was built from one of the given scripts (no false
// negatives, no false positives).
func vpFilterMatchAny(f *gcs.Filter, data [][]byte) bool {
	for _, m := range vpModelFilters {
		if m.f != f {
			continue
		}
		for _, s := range m.scripts {
			for _, d := range data {
				if bytes.Equal(s, d) {
					return true
				}
			}
		}
	}
	return false
}

type vpRescanChain struct {
	params  chaincfg.Params
	best    []wire.BlockHeader // current best chain, index = height
	blocks  map[chainhash.Hash]*wire.MsgBlock
	filters map[chainhash.Hash]*gcs.Filter
	sub     chan blockntfns.BlockNtfn
	subOpen bool
	// scripted chain changes still to happen and where they may happen
	pending        []func()
	callbacks      int
	fireAt         int   // the pending change is applied at this chain-source call (0 = only between events)
	cutBack        bool  // headers were discarded without a replacement at some point
	nextFireAt     []int // firing points (calls after the previous change) of the changes after the first
	filterFailures int   // GetCFilter fails this many more times
	blockFailures  int
	notCurrent     bool // the backend is still syncing (IsCurrent reports false)
}

func (c *vpRescanChain) maybeChange() {
	c.callbacks++
	if c.fireAt != 0 && c.callbacks == c.fireAt && len(c.pending) > 0 {
		f := c.pending[0]
		c.pending = c.pending[1:]
		f()
		// the next change may also happen at a later call of the walk
		c.callbacks = 0
		c.fireAt = 0
		if len(c.nextFireAt) > 0 {
			c.fireAt = c.nextFireAt[0]
			c.nextFireAt = c.nextFireAt[1:]
		}
	}
}

func (c *vpRescanChain) ChainParams() chaincfg.Params { return c.params }
func (c *vpRescanChain) BestBlock() (*headerfs.BlockStamp, error) {
	c.maybeChange()
	tip := c.best[len(c.best)-1]
	return &headerfs.BlockStamp{Height: int32(len(c.best) - 1), Hash: tip.BlockHash(), Timestamp: tip.Timestamp}, nil
}
func (c *vpRescanChain) GetBlockHeaderByHeight(h uint32) (*wire.BlockHeader, error) {
	c.maybeChange()
	if int(h) >= len(c.best) {
		return nil, errors.New("vp: height beyond tip")
	}
	hd := c.best[h]
	return &hd, nil
}
func (c *vpRescanChain) GetBlockHeader(hash *chainhash.Hash) (*wire.BlockHeader, uint32, error) {
	for i := range c.best {
		if c.best[i].BlockHash() == *hash {
			hd := c.best[i]
			return &hd, uint32(i), nil
		}
	}
	return nil, 0, headerfs.ErrHashNotFound
}
func (c *vpRescanChain) GetBlock(hash chainhash.Hash, _ ...QueryOption) (*btcutil.Block, error) {
	c.maybeChange()
	if c.blockFailures > 0 {
		c.blockFailures--
		return nil, errors.New("vp: block fetch failed")
	}
	b, ok := c.blocks[hash]
	if !ok {
		return nil, errors.New("vp: unknown block")
	}
	return btcutil.NewBlock(b), nil
}
func (c *vpRescanChain) GetFilterHeaderByHeight(h uint32) (*chainhash.Hash, error) {
	if int(h) >= len(c.best) {
		return nil, errors.New("vp: no filter header")
	}
	return &chainhash.Hash{0xf0, byte(h)}, nil
}
func (c *vpRescanChain) GetCFilter(hash chainhash.Hash, _ wire.FilterType, _ ...QueryOption) (*gcs.Filter, error) {
	c.maybeChange()
	if c.filterFailures > 0 {
		c.filterFailures--
		return nil, errors.New("vp: filter fetch failed")
	}
	f, ok := c.filters[hash]
	if !ok {
		return nil, headerfs.ErrHashNotFound
	}
	return f, nil
}
func (c *vpRescanChain) IsCurrent() bool { return !c.notCurrent }
func (c *vpRescanChain) Subscribe(bestHeight uint32) (*blockntfns.Subscription, error) {
	if int(bestHeight) > len(c.best)-1 {
		return nil, errors.New("vp: subscription height above the tip")
	}
	c.sub = make(chan blockntfns.BlockNtfn, 32)
	c.subOpen = true
	for h := int(bestHeight) + 1; h < len(c.best); h++ {
		c.sub <- blockntfns.NewBlockConnected(c.best[h], uint32(h))
	}
	ch := c.sub
	return &blockntfns.Subscription{Notifications: ch, Cancel: func() {
		if c.sub == ch {
			c.subOpen = false
		}
	}}, nil
}

// addBlock appends a block to the best chain (optionally spending the
// watched outpoint) and notifies the live subscription.
func (c *vpRescanChain) addBlock(salt uint32, spend *wire.OutPoint, spendScript []byte) {
	prev := c.best[len(c.best)-1]
	h := len(c.best)
	hdr := vpHonestHeader(&prev, h, salt)
	blk := &wire.MsgBlock{Header: hdr}
	cb := &wire.MsgTx{Version: 2, LockTime: salt, TxIn: []*wire.TxIn{{PreviousOutPoint: wire.OutPoint{Index: 0xffffffff}}},
		TxOut: []*wire.TxOut{{Value: 50, PkScript: []byte{0x51, byte(salt)}}}}
	blk.Transactions = append(blk.Transactions, cb)
	scripts := [][]byte{cb.TxOut[0].PkScript}
	if spend != nil {
		sp := &wire.MsgTx{Version: 2, LockTime: salt + 500, TxIn: []*wire.TxIn{{PreviousOutPoint: *spend}},
			TxOut: []*wire.TxOut{{Value: 1, PkScript: []byte{0x52, byte(salt)}}}}
		blk.Transactions = append(blk.Transactions, sp)
		scripts = append(scripts, spendScript, sp.TxOut[0].PkScript)
	}
	f, _ := gcs.FromNBytes(builder.DefaultP, builder.DefaultM, []byte{1, byte(len(vpModelFilters))})
	vpModelFilters = append(vpModelFilters, &vpModelFilter{f: f, scripts: scripts})
	bh := hdr.BlockHash()
	c.blocks[bh] = blk
	c.filters[bh] = f
	c.best = append(c.best, hdr)
	if c.subOpen {
		c.sub <- blockntfns.NewBlockConnected(hdr, uint32(h))
	}
}

func (c *vpRescanChain) disconnectTip() {
	h := len(c.best) - 1
	hdr := c.best[h]
	c.best = c.best[:h]
	if c.subOpen {
		c.sub <- blockntfns.NewBlockDisconnected(hdr, uint32(h), c.best[h-1])
	}
}

type vpWalkEvent struct {
	connected bool
	height    int32
	header    wire.BlockHeader
	txs       int
}

// VerifH_C09_walk: see the file comment.
func VerifH_C09_walk() {
	vpOpt("clock", 1)
	vpOpt("timers", vpParam("timers", 2))
	vpModelFilters = nil
	g := vpHonestHeader(nil, 0, 0)
	gh := g.BlockHash()
	params := vpRegtestParams()
	params.GenesisBlock = &wire.MsgBlock{Header: g}
	params.GenesisHash = &gh
	c := &vpRescanChain{params: params, best: []wire.BlockHeader{g}, blocks: map[chainhash.Hash]*wire.MsgBlock{},
		filters: map[chainhash.Hash]*gcs.Filter{}}
	watched := wire.OutPoint{Hash: chainhash.Hash{0xaa}, Index: 1}
	watchScript := []byte{0x00, 0x14, 0x77}
	// initial chain of n blocks; the watched outpoint may be spent in one of them
	n := vpRange("initialBlocks", vpParam("minblocks", 1), 3)
	spendAt := vpRange("spendAt", 0, n+2) // height of the block spending the watched outpoint (0 = never)
	salt := uint32(1)
	mk := func() {
		h := len(c.best)
		if h == spendAt {
			c.addBlock(salt, &watched, watchScript)
		} else {
			c.addBlock(salt, nil, nil)
		}
		salt++
	}
	for i := 0; i < n; i++ {
		mk()
	}
	// scripted chain changes
	nchg := vpRange("changes", vpParam("minchanges", 0), vpParam("maxchanges", 2))
	for k := 0; k < nchg; k++ {
		switch vpRange("change", 0, vpParam("changekinds", 1)) {
		case 0:
			c.pending = append(c.pending, func() { mk(); vpReach("chain-grew") })
		case 1:
			d := vpRange("reorgDepth", 1, 2)
			c.pending = append(c.pending, func() {
				if d >= len(c.best) {
					return
				}
				for j := 0; j < d; j++ {
					c.disconnectTip()
				}
				salt += 100
				for j := 0; j <= d; j++ {
					mk()
				}
				vpReach("chain-reorganised")
			})
		case 2:
			// headers are discarded without a replacement (a branch that
			// failed a checkpoint is cut back)
			d := vpRange("shrinkBy", 1, 2)
			c.pending = append(c.pending, func() {
				if d >= len(c.best) {
					return
				}
				for j := 0; j < d; j++ {
					c.disconnectTip()
				}
				c.cutBack = true
				vpReach("chain-cut-back")
			})
		}
	}
	c.fireAt = vpRange("firstChangeAtCall", vpParam("mincall", 0), vpParam("maxcall", 6))
	for k := 1; k < nchg && c.fireAt != 0 && vpParam("laterchanges", 0) == 1; k++ {
		c.nextFireAt = append(c.nextFireAt, vpRange("laterChangeAfterCalls", 0, vpParam("latercall", 3)))
	}
	if vpParam("nofailures", 0) == 0 {
		c.filterFailures = vpRange("filterFailures", 0, 1)
		c.blockFailures = vpRange("blockFailures", 0, 1)
	}

	var walk []vpWalkEvent
	quit := make(chan struct{})
	startHeight := vpRange("startHeight", 0, 1)
	start := c.best[startHeight]
	// an optional start time: transactions are wanted from the first block
	// whose timestamp is after it (height startAt and above)
	startAt := 0
	startTime := time.Time{}
	if vpParam("starttimes", 1) == 1 {
		startAt = vpRange("startTimeBeforeHeight", 0, n+1)
		if startAt > 0 {
			startTime = time.Unix(vpBaseTime+int64(startAt)*600-1, 0)
		}
	}
	rs, err := newRescanState(c,
		StartTime(startTime),
		StartBlock(&headerfs.BlockStamp{Height: int32(startHeight), Hash: start.BlockHash()}),
		WatchInputs(InputWithScript{OutPoint: watched, PkScript: watchScript}),
		QuitChan(quit),
		NotificationHandlers(rpcclient.NotificationHandlers{
			OnFilteredBlockConnected: func(height int32, header *wire.BlockHeader, txs []*btcutil.Tx) {
				walk = append(walk, vpWalkEvent{true, height, *header, len(txs)})
			},
			OnFilteredBlockDisconnected: func(height int32, header *wire.BlockHeader) {
				walk = append(walk, vpWalkEvent{false, height, *header, 0})
			},
		}),
	)
	if err != nil {
		vpAssert(false, "rescan-state-created")
		return
	}
	var rerr error
	done := make(chan struct{})
	go func() {
		rerr = rs.rescan()
		close(done)
	}()
	vpQuiesce()
	// remaining scripted changes happen while the rescan waits for notifications
	for len(c.pending) > 0 {
		f := c.pending[0]
		c.pending = c.pending[1:]
		f()
		vpQuiesce()
	}
	vpQuiesce()
	close(quit)
	<-done
	_ = rerr

	// ---- the callbacks form a valid walk of the block tree from the start block ----
	cur := start
	curH := int32(startHeight)
	// every header that ever existed, by hash (to find the parent on a disconnect)
	known := map[chainhash.Hash]wire.BlockHeader{gh: g}
	for h, b := range c.blocks {
		known[h] = b.Header
	}
	seenSpend := 0
	for _, ev := range walk {
		if ev.connected {
			vpAssert(ev.header.PrevBlock == cur.BlockHash(), "connected-block-is-a-child-of-the-current-block")
			vpAssert(ev.height == curH+1, "connected-height-is-current-plus-one")
			cur, curH = ev.header, ev.height
			// relevance: exactly the blocks that spend the watched outpoint carry a transaction
			blk := c.blocks[ev.header.BlockHash()]
			spends := 0
			if blk != nil {
				for _, tx := range blk.Transactions {
					for _, in := range tx.TxIn {
						if in.PreviousOutPoint == watched {
							spends++
						}
					}
				}
			}
			if int(ev.height) >= startAt {
				vpAssert(ev.txs == spends, "relevant-transactions-delivered-with-their-block")
				if startAt > 0 && spends > 0 {
					vpReach("relevant-tx-at-or-after-the-start-time")
				}
			} else {
				// before the start time a block may be reported without its transactions
				vpAssert(ev.txs <= spends, "no-irrelevant-transaction-delivered")
			}
			seenSpend += spends
		} else {
			vpAssert(ev.header == cur && ev.height == curH, "disconnect-removes-exactly-the-current-block")
			p, ok := known[cur.PrevBlock]
			if !ok {
				vpAssert(false, "disconnected-block-has-a-known-parent")
				break
			}
			cur, curH = p, curH-1
		}
	}
	if rerr == ErrRescanExit && c.filterFailures == 0 && c.blockFailures == 0 {
		// nothing left to retry: the walk has caught up with the chain
		vpReach("caught-up")
		if c.cutBack {
			// After headers were discarded without replacement the rescan may
			// sit on a block that is no longer on the chain until the next
			// block notification makes it rewind (the property does not ask
			// for promptness): recorded, not asserted.
			if !(cur == c.best[len(c.best)-1] && int(curH) == len(c.best)-1) {
				vpNote("walk-not-at-the-tip-after-a-cut-back")
			}
		} else {
			vpAssert(cur == c.best[len(c.best)-1] && int(curH) == len(c.best)-1, "walk-ends-at-the-chain-tip")
		}
	} else if rerr != ErrRescanExit {
		vpReach("rescan-ended-with-error")
		if rerr != nil {
			vpNote("err: " + rerr.Error())
		} else {
			vpNote("err: nil")
		}
	}
}
