package neutrino

// C06 (cache part): the block GetBlock validated and cached is the very
// object every later caller gets, so nothing in the client may change it.
// After a validated block was returned, the in-repo consumers of GetBlock
// results run over it (the rescan's extractBlockMatches through a chain
// source backed by the real GetBlock, the utxo scanner's ProcessBlock);
// the block served from the cache afterwards must still carry exactly the
// validated transaction list.

import (
	"time"

	"github.com/btcsuite/btcd/btcutil/v2"
	"github.com/btcsuite/btcd/btcutil/v2/gcs"
	"github.com/btcsuite/btcd/btcutil/v2/gcs/builder"
	"github.com/btcsuite/btcd/chaincfg/v2"
	"github.com/btcsuite/btcd/chainhash/v2"
	"github.com/btcsuite/btcd/wire/v2"
	"github.com/lightninglabs/neutrino/banman"
	"github.com/lightninglabs/neutrino/cache/lru"
	"github.com/lightninglabs/neutrino/headerfs"
)

type vpCacheChain struct {
	*vpRescanChain
	s *ChainService
}

func (c *vpCacheChain) GetBlock(hash chainhash.Hash, opts ...QueryOption) (*btcutil.Block, error) {
	return c.s.GetBlock(hash, opts...)
}

// VerifH_C06_cachedBlockImmutable: see the file comment.
func VerifH_C06_cachedBlockImmutable() {
	vpOpt("clock", 1)
	vpModelFilters = nil
	store, err := banman.NewStore(vpNewDB())
	if err != nil {
		vpAssert(false, "ban-store-created")
		return
	}
	genesis := wire.BlockHeader{Version: 1, Bits: 0x207fffff, Timestamp: time.Unix(1296688602, 0)}
	want := wire.BlockHeader{Version: 2, PrevBlock: genesis.BlockHash(), Bits: 0x207fffff, Timestamp: time.Unix(1296689202, 0), Nonce: 5}
	bs := &vpBlockStore{hdrs: []wire.BlockHeader{genesis, want}, ctl: &vpWriteCtl{}}
	wantHash := want.BlockHash()

	// the block: a coinbase and 1-3 transactions, each spending its own outpoint
	ntx := vpRange("transactions", 1, vpParam("maxtxs", 3))
	blkMsg := &wire.MsgBlock{Header: want}
	cb := &wire.MsgTx{Version: 2, TxIn: []*wire.TxIn{{PreviousOutPoint: wire.OutPoint{Index: 0xffffffff}}},
		TxOut: []*wire.TxOut{{Value: 50, PkScript: []byte{0x51, 0x01}}}}
	blkMsg.Transactions = append(blkMsg.Transactions, cb)
	scripts := [][]byte{cb.TxOut[0].PkScript}
	var ops []wire.OutPoint
	var spent [][]byte
	for k := 0; k < ntx; k++ {
		op := wire.OutPoint{Hash: chainhash.Hash{0xa0, byte(k)}, Index: uint32(k)}
		sc := []byte{0x00, 0x14, byte(0x60 + k)}
		tx := &wire.MsgTx{Version: 2, LockTime: uint32(10 + k), TxIn: []*wire.TxIn{{PreviousOutPoint: op}},
			TxOut: []*wire.TxOut{{Value: 1, PkScript: []byte{0x52, byte(k)}}}}
		blkMsg.Transactions = append(blkMsg.Transactions, tx)
		ops = append(ops, op)
		spent = append(spent, sc)
		scripts = append(scripts, sc, tx.TxOut[0].PkScript)
	}
	wm := &vpWorkManager{responses: []*vpResponse{{peer: vpPeers[0], msg: blkMsg, blk: blkMsg, same: true}}}
	s := &ChainService{
		BlockHeaders: bs,
		BlockCache:   lru.NewCache[wire.InvVect, *CacheableBlock](1 << 30),
		workManager:  wm,
		banStore:     store,
		timeSource:   vpTimeSource{},
		chainParams:  chaincfg.Params{Net: wire.SimNet},
		quit:         make(chan struct{}),
	}
	blk, gerr := s.GetBlock(wantHash)
	if gerr != nil || blk == nil {
		return // the response failed validation (C06's main harness)
	}
	vpReach("validated-block-cached")
	txs0 := append([]*wire.MsgTx(nil), blk.MsgBlock().Transactions...)

	// ---- consumer 1: the rescan's block matching, watching some of the spent outpoints ----
	f, _ := gcs.FromNBytes(builder.DefaultP, builder.DefaultM, []byte{1, byte(len(vpModelFilters))})
	vpModelFilters = append(vpModelFilters, &vpModelFilter{f: f, scripts: scripts})
	ro := defaultRescanOptions()
	watched := 0
	for k := 0; k < ntx; k++ {
		if vpRange("watched", 0, 1) == 1 {
			ro.watchInputs = append(ro.watchInputs, InputWithScript{OutPoint: ops[k], PkScript: spent[k]})
			ro.watchList = append(ro.watchList, spent[k])
			watched++
		}
	}
	chain := &vpCacheChain{vpRescanChain: &vpRescanChain{params: chaincfg.Params{Net: wire.SimNet}}, s: s}
	rel, rerr := extractBlockMatches(chain, ro, &headerfs.BlockStamp{Height: 1, Hash: wantHash}, f)
	vpAssert(rerr == nil, "block-matching-succeeds-on-the-cached-block")
	vpAssert(len(rel) == watched, "block-matching-delivers-the-relevant-transactions")
	if watched > 0 && watched < ntx {
		vpReach("some-but-not-all-transactions-relevant")
	}

	// ---- consumer 2: the utxo scanner's block processing ----
	if vpRange("utxoScan", 0, 1) == 1 {
		rep := newBatchSpendReporter()
		req := &GetUtxoRequest{Input: &InputWithScript{OutPoint: ops[0], PkScript: spent[0]}, BirthHeight: 1,
			resultChan: make(chan *getUtxoResult, 1), quit: make(chan struct{})}
		rep.ProcessBlock(blk.MsgBlock(), []*GetUtxoRequest{req}, 1)
		vpReach("utxo-scan-processed-the-cached-block")
	}

	// ---- the cache still serves the validated block, unchanged ----
	q0 := wm.queries
	blk2, err2 := s.GetBlock(wantHash)
	vpAssert(err2 == nil && blk2 != nil && wm.queries == q0, "second-call-served-from-cache")
	if blk2 == nil {
		return
	}
	mtx := blk2.MsgBlock().Transactions
	utx := blk2.Transactions()
	vpAssert(len(mtx) == len(txs0) && len(utx) == len(txs0), "cached-block-keeps-its-transaction-count")
	for i := range txs0 {
		if i < len(mtx) {
			vpAssert(mtx[i] == txs0[i], "cached-block-keeps-its-validated-transaction-list")
		}
		if i < len(utx) {
			vpAssert(utx[i].MsgTx() == txs0[i] && utx[i].Index() == i, "cached-block-keeps-its-validated-transaction-list")
		}
	}
	vpAssert(blk2.MsgBlock().Header == want, "cached-block-keeps-its-header")
}
