package neutrino

// C19 — emitted chain events mirror exactly how the committed chain
// changed (and the store-level half of C03: the filter-header chain never
// runs ahead of the block-header chain).

import (
	"github.com/btcsuite/btcd/chainhash/v2"
	"github.com/btcsuite/btcd/wire/v2"
	"github.com/lightninglabs/neutrino/blockntfns"
)

func vpSymHash(label string) chainhash.Hash {
	var h chainhash.Hash
	copy(h[:], vpBytes(label, 32))
	return h
}

// vpCheckConnected: events[from:] are exactly the connected events for
// heights lo..hi in increasing order, each carrying that block's header
// and emitted only after the filter header for that height was stored.
func vpCheckConnected(e *vpBMEnv, from, lo, hi int, tag string) {
	want := hi - lo + 1
	if want < 0 {
		want = 0
	}
	vpAssert(len(e.events)-from == want, tag+"one-connected-event-per-newly-committed-block")
	for i := from; i < len(e.events); i++ {
		ev := e.events[i]
		c, ok := ev.ntfn.(*blockntfns.Connected)
		vpAssert(ok, tag+"event-is-connected")
		if !ok {
			continue
		}
		h := lo + (i - from)
		vpAssert(int(c.Height()) == h, tag+"connected-heights-increase-by-one")
		if h >= 0 && h < len(e.bs.hdrs) {
			vpAssert(c.Header() == e.bs.hdrs[h], tag+"connected-event-carries-the-block-header")
		}
		vpAssert(ev.ft >= h, tag+"connected-only-after-the-filter-header-is-stored")
		// a backlog requested at this very moment already covers the whole
		// committed batch, so backlog + later events never leave a gap
		vpAssert(ev.best == ev.ft, tag+"backlog-basis-equals-committed-tip-when-events-are-delivered")
	}
}

// VerifH_C19_writeCFHeaders: one filter-header batch written on top of a
// symbolic state (ft <= bt).
func VerifH_C19_writeCFHeaders() {
	n := vpParam("chain", 4)
	bt := vpRange("blockTip", 1, n)
	ft := vpRange("filterTip", 0, bt)
	e := vpNewBMEnv(n, bt, ft, vpRegtestParams())
	if e == nil {
		return
	}
	k := vpRange("hashes", 1, 2)
	msg := &wire.MsgCFHeaders{FilterType: wire.GCSFilterRegular}
	for j := 0; j < k; j++ {
		fh := vpSymHash("filterHash")
		msg.FilterHashes = append(msg.FilterHashes, &fh)
	}
	prevOK := vpRange("prevMatches", 0, 1) == 1
	if prevOK {
		msg.PrevFilterHeader = e.filters[ft]
	} else {
		msg.PrevFilterHeader = vpSymHash("wrongPrev")
		vpAssume(msg.PrevFilterHeader != e.filters[ft])
	}
	// callers ask for, and accept, the batch ending at height ft+k
	stopH := ft + k
	if stopH > bt {
		return // the block header does not exist: callers never get here
	}
	msg.StopHash = e.chain[stopH].BlockHash()
	// ... or the answer was given for a stop block that a reorganisation has
	// disconnected in the meantime (it is no longer in the block index): its
	// entries belong to blocks that are not on the chain
	stale := vpParam("stalestops", 1) == 1 && vpRange("answerForADisconnectedStopBlock", 0, 1) == 1
	if stale {
		gone := vpHonestHeader(&e.chain[stopH-1], stopH, 7777)
		msg.StopHash = gone.BlockHash()
	}
	preF := append([]chainhash.Hash(nil), e.fs.hashes...)
	ev0 := len(e.events)
	// the filter-header store may fail to write the batch (I/O error)
	writeFails := vpParam("storefaults", 1) == 1 && vpRange("filterStoreWriteFails", 0, 1) == 1
	if writeFails {
		e.fs.ctl.failAt = e.fs.ctl.calls + 1
	}

	tip, tipH, err := e.bm.writeCFHeadersMsg(msg, e.fs)
	vpQuiesce()
	e.fs.ctl.failAt = 0
	if writeFails && prevOK && !stale {
		// nothing was committed: no block may be announced, the in-memory
		// filter tip and the backlog offered to subscribers stay where they were
		vpReach("filter-store-write-failed")
		vpAssert(err != nil, "failed-commit-is-reported")
		vpAssert(len(e.fs.hashes) == len(preF), "failed-commit-leaves-the-store-unchanged")
		vpAssert(len(e.events) == ev0, "nothing-announced-for-a-batch-that-was-not-stored")
		vpAssert(int(e.bm.filterHeaderTip) == ft && e.bm.filterHeaderTipHash == e.chain[ft].BlockHash(), "in-memory-filter-tip-unchanged-after-a-failed-commit")
		_, best, berr := e.bm.NotificationsSinceHeight(0)
		vpAssert(berr == nil && int(best) == ft, "backlog-basis-unchanged-after-a-failed-commit")
		return
	}
	if stale {
		vpReach("answer-for-a-disconnected-stop-block")
		vpAssert(err != nil, "answer-for-a-disconnected-block-is-refused")
	}

	if !prevOK {
		vpReach("wrong-prev-header")
		vpAssert(err != nil, "batch-not-extending-the-tip-is-refused")
	}
	if err != nil {
		vpReach("write-refused")
		vpAssert(len(e.fs.hashes) == len(preF), "refused-batch-leaves-the-store-unchanged")
		vpAssert(len(e.events) == ev0, "refused-batch-emits-no-event")
		return
	}
	vpReach("write-accepted")
	vpAssert(len(e.fs.hashes) == len(preF)+k, "store-grows-by-exactly-the-batch")
	// each new entry is the hash-chain successor of the previous one
	prev := preF[len(preF)-1]
	for j := 0; j < k; j++ {
		want := vpFilterHeaderAfter(*msg.FilterHashes[j], prev)
		vpAssert(e.fs.hashes[len(preF)+j] == want, "appended-entry-is-the-hash-chain-successor")
		prev = want
	}
	vpAssert(int(tipH) == ft+k && *tip == prev, "returned-tip-is-the-new-filter-tip")
	ct, ch, cerr := e.fs.ChainTip()
	vpAssert(cerr == nil && int(ch) == ft+k && *ct == prev, "store-tip-readable-and-at-the-new-height")
	vpAssert(!e.ftAboveBt, "filter-chain-never-ahead-of-block-chain")
	vpAssert(int(e.bm.filterHeaderTip) == ft+k && e.bm.filterHeaderTipHash == e.chain[ft+k].BlockHash(), "in-memory-filter-tip-updated")
	vpCheckConnected(e, ev0, ft+1, ft+k, "")
}

// VerifH_C19_rollback: rollBackToHeight from a symbolic state.
func VerifH_C19_rollback() {
	n := vpParam("chain", 4)
	bt := vpRange("blockTip", 1, n)
	ft := vpRange("filterTip", 0, bt)
	e := vpNewBMEnv(n, bt, ft, vpRegtestParams())
	if e == nil {
		return
	}
	target := vpRange("target", 0, bt)
	ev0 := len(e.events)
	// one store call of the rollback may fail (I/O error): the k-th rollback
	// of the block-header store or of the filter-header store
	faulty := 0
	if vpParam("rollbackfaults", 1) == 1 {
		faulty = vpRange("storeFailingDuringTheRollback", 0, 2) // 0 none, 1 block headers, 2 filter headers
	}
	switch faulty {
	case 1:
		e.bs.ctl.rbFailAt = vpRange("failingRollbackCall", 1, 2)
	case 2:
		e.fs.ctl.rbFailAt = vpRange("failingRollbackCall", 1, 2)
	}
	err := e.bm.rollBackToHeight(uint32(target))
	vpQuiesce()
	e.bs.ctl.rbFailAt, e.fs.ctl.rbFailAt = 0, 0
	if faulty != 0 && err != nil {
		// the rollback stopped half-way: every block header that was removed
		// before the failure has been announced, highest first, and nothing else
		vpReach("rollback-interrupted-by-a-store-error")
		removed := bt - (len(e.bs.hdrs) - 1)
		if removed > 0 {
			vpReach("headers-removed-before-the-store-error")
		}
		vpAssert(len(e.events)-ev0 == removed, "interrupted:one-disconnected-event-per-removed-header")
		for i := ev0; i < len(e.events); i++ {
			d, ok := e.events[i].ntfn.(*blockntfns.Disconnected)
			vpAssert(ok, "interrupted:event-is-disconnected")
			if !ok {
				continue
			}
			h := bt - (i - ev0)
			vpAssert(int(d.Height()) == h && d.Header() == e.chain[h], "interrupted:disconnected-highest-first-with-the-removed-header")
		}
		vpAssert(!e.ftAboveBt && len(e.fs.hashes) <= len(e.bs.hdrs), "interrupted:filter-chain-not-ahead-of-block-chain")
		return
	}
	vpAssert(err == nil, "rollback-succeeds")
	if err != nil {
		return
	}
	vpAssert(len(e.bs.hdrs)-1 == target, "block-tip-is-the-target")
	wantFt := ft
	if target < wantFt {
		wantFt = target
		vpReach("filter-headers-rolled-back")
	} else if target < bt {
		vpReach("only-uncommitted-blocks-rolled-back")
	}
	vpAssert(len(e.fs.hashes)-1 == wantFt, "filter-tip-is-min-of-old-tip-and-target")
	vpAssert(!e.ftAboveBt, "filter-chain-never-ahead-of-block-chain")
	_, fh, ferr := e.fs.ChainTip()
	vpAssert(ferr == nil && int(fh) == wantFt, "filter-store-tip-readable-after-rollback")
	for i := 0; i <= wantFt; i++ {
		vpAssert(e.fs.hashes[i] == e.filters[i], "surviving-filter-headers-unchanged")
	}
	// one disconnected event per removed header, highest first
	vpAssert(len(e.events)-ev0 == bt-target, "one-disconnected-event-per-removed-header")
	for i := ev0; i < len(e.events); i++ {
		d, ok := e.events[i].ntfn.(*blockntfns.Disconnected)
		vpAssert(ok, "event-is-disconnected")
		if !ok {
			continue
		}
		h := bt - (i - ev0)
		vpAssert(int(d.Height()) == h, "disconnected-highest-first")
		vpAssert(d.Header() == e.chain[h], "disconnected-event-carries-the-removed-header")
		vpAssert(d.ChainTip() == e.chain[h-1], "disconnected-event-carries-the-new-tip")
	}
	// backlog right after the rollback
	for h := 1; h <= wantFt; h++ {
		blocks, best, berr := e.bm.NotificationsSinceHeight(uint32(h))
		vpAssert(berr == nil, "backlog-after-rollback-available")
		if berr == nil {
			vpAssert(int(best) == wantFt && len(blocks) == wantFt-h, "backlog-after-rollback-is-the-committed-blocks")
		}
	}
}

// VerifH_C19_backlog: NotificationsSinceHeight for every request height.
func VerifH_C19_backlog() {
	n := vpParam("chain", 4)
	bt := vpRange("blockTip", 0, n)
	ft := vpRange("filterTip", 0, bt)
	e := vpNewBMEnv(n, bt, ft, vpRegtestParams())
	if e == nil {
		return
	}
	h := vpU32("height")
	blocks, best, err := e.bm.NotificationsSinceHeight(h)
	switch {
	case h == 0:
		vpReach("height-zero")
		vpAssert(err == nil && len(blocks) == 0 && int(best) == ft, "zero-height-means-no-backlog")
	case h > uint32(ft):
		vpReach("height-above-tip")
		vpAssert(err != nil, "height-above-the-filter-tip-is-an-error")
	default:
		vpReach("backlog")
		vpAssert(err == nil && int(best) == ft, "backlog-reports-the-filter-tip")
		vpAssert(len(blocks) == ft-int(h), "backlog-is-exactly-the-committed-blocks-above-the-height")
		for i, b := range blocks {
			c, ok := b.(*blockntfns.Connected)
			vpAssert(ok && int(c.Height()) == int(h)+1+i && c.Header() == e.chain[int(h)+1+i], "backlog-entries-in-order-with-headers")
		}
	}
}

// VerifH_C19_compose: filter batch, reorg of depth d (also below the
// filter tip), new headers on the other branch, filter batch again; a
// subscriber that replays backlog + later events holds the committed chain.
func VerifH_C19_compose() {
	n := vpParam("chain", 4)
	bt := vpRange("blockTip", 2, n)
	ft := vpRange("filterTip", 1, bt)
	e := vpNewBMEnv(n, bt, ft, vpRegtestParams())
	if e == nil {
		return
	}
	// the subscriber joins at height h with the backlog
	h := vpRange("subscribeAt", 1, ft)
	blocks, _, err := e.bm.NotificationsSinceHeight(uint32(h))
	vpAssert(err == nil, "subscribe-backlog-ok")
	held := append([]wire.BlockHeader(nil), e.chain[:h+1]...) // the subscriber's view
	apply := func(nt blockntfns.BlockNtfn) {
		switch x := nt.(type) {
		case *blockntfns.Connected:
			if int(x.Height()) <= len(held)-1 {
				return // already held
			}
			vpAssert(int(x.Height()) == len(held), "replay:connected-extends-the-held-chain")
			held = append(held, x.Header())
		case *blockntfns.Disconnected:
			if int(x.Height()) > len(held)-1 {
				return // the subscriber never held that block
			}
			vpAssert(int(x.Height()) == len(held)-1 && x.Header() == held[len(held)-1], "replay:disconnected-removes-the-held-tip")
			held = held[:len(held)-1]
		}
	}
	for _, b := range blocks {
		apply(b)
	}
	ev0 := len(e.events)
	// reorg: roll back to a fork point and extend with a different branch
	fork := vpRange("forkAt", 0, bt-1)
	if e.bm.rollBackToHeight(uint32(fork)) != nil {
		vpAssert(false, "compose-rollback-ok")
		return
	}
	var branch []wire.BlockHeader
	prev := e.chain[fork]
	for j := 1; j <= 2; j++ {
		nh := vpHonestHeader(&prev, fork+j, uint32(1000+j))
		branch = append(branch, nh)
		prev = nh
	}
	// (the header write itself is C01/C02's subject; here the store is extended directly)
	e.bs.hdrs = append(e.bs.hdrs, branch...)
	// filter headers catch up by one batch from the current filter tip
	_, curFt, _ := e.fs.ChainTip()
	k := vpRange("catchUp", 1, 2)
	if int(curFt)+k <= len(e.bs.hdrs)-1 {
		msg := &wire.MsgCFHeaders{FilterType: wire.GCSFilterRegular, PrevFilterHeader: e.fs.hashes[curFt]}
		for j := 0; j < k; j++ {
			fh := vpSymHash("filterHash")
			msg.FilterHashes = append(msg.FilterHashes, &fh)
		}
		msg.StopHash = e.bs.hdrs[int(curFt)+k].BlockHash()
		_, _, werr := e.bm.writeCFHeadersMsg(msg, e.fs)
		vpAssert(werr == nil, "compose-filter-batch-ok")
	}
	vpQuiesce()
	for _, ev := range e.events[ev0:] {
		apply(ev.ntfn)
	}
	// the subscriber's chain is the committed chain (block headers up to the filter tip)
	_, finalFt, _ := e.fs.ChainTip()
	vpAssert(len(held)-1 == int(finalFt), "replay-ends-at-the-committed-filter-tip")
	if len(held)-1 == int(finalFt) {
		ok := true
		for i := range held {
			ok = vpAnd(ok, held[i] == e.bs.hdrs[i])
		}
		vpAssert(ok, "replay-reproduces-the-committed-chain")
	}
}
