package neutrino

// C03 (filter validity kernel) — the real VerifyBasicBlockFilter decides
// whether a served filter is provably false from the block.  In the
// mismatch-resolution harnesses its verdict is a marker in the model
// payload; here the real function runs against a set-model of the GCS
// matcher (a model filter matches exactly the scripts it was built from)
// and its verdict is compared with BIP-158's rule restated independently:
// a basic filter must contain every non-empty output script of every
// non-coinbase transaction except those starting with OP_RETURN.

import (
	"github.com/btcsuite/btcd/btcutil/v2"
	"github.com/btcsuite/btcd/btcutil/v2/gcs"
	"github.com/btcsuite/btcd/btcutil/v2/gcs/builder"
	"github.com/btcsuite/btcd/wire/v2"
)

// a menu of output scripts: empty, OP_RETURN data, witness program,
// anyone-can-spend, a truncated push (does not parse), OP_RETURN alone, and
// a one-byte script whose only byte is symbolic.
func vpMenuScript(k int) []byte {
	switch k {
	case 0:
		return []byte{}
	case 1:
		return []byte{0x6a, 0x02, 0xab, 0xcd}
	case 2:
		return []byte{0x00, 0x14, 1, 2, 3, 4, 5, 6, 7, 8, 9, 10, 11, 12, 13, 14, 15, 16, 17, 18, 19, 20}
	case 3:
		return []byte{0x51}
	case 4:
		return []byte{0x4c} // OP_PUSHDATA1 without its length byte
	case 5:
		return []byte{0x6a}
	case 6:
		return []byte{0x4e, 0x01} // OP_PUSHDATA4 with a truncated length
	default:
		return []byte{vpU8("scriptByte")}
	}
}

func VerifH_C03_verifyFilter() {
	vpOpt("real:VerifyBasicBlockFilter", 1)
	vpModelFilters = nil
	nOut := vpRange("outputs", 1, vpParam("maxoutputs", 2))
	cb := &wire.MsgTx{Version: 2, TxIn: []*wire.TxIn{{PreviousOutPoint: wire.OutPoint{Index: 0xffffffff}}},
		TxOut: []*wire.TxOut{{Value: 50, PkScript: []byte{0x51, 0xcb}}}}
	tx := &wire.MsgTx{Version: 2, TxIn: []*wire.TxIn{{PreviousOutPoint: wire.OutPoint{Index: 3}}}}
	var included [][]byte
	for o := 0; o < nOut; o++ {
		sc := vpMenuScript(vpRange("script", 0, vpParam("menu", 7)))
		tx.TxOut = append(tx.TxOut, &wire.TxOut{Value: 1, PkScript: sc})
		if vpRange("inFilter", 0, 1) == 1 && len(sc) > 0 {
			included = append(included, sc)
		}
	}
	// whether the coinbase output is in the filter is irrelevant to the verdict
	if vpRange("coinbaseInFilter", 0, 1) == 1 {
		included = append(included, cb.TxOut[0].PkScript)
	}
	// the rule, by script value (two outputs may carry the same script)
	has := func(sc []byte) bool {
		r := false
		for _, i := range included {
			r = vpOr(r, vpEqBytes(i, sc))
		}
		return r
	}
	mustHave := true // every script the rule requires is in the filter
	opReturnIn := 0  // OP_RETURN outputs the filter nevertheless matches
	for _, o := range tx.TxOut {
		sc := o.PkScript
		switch {
		case len(sc) == 0:
		case sc[0] == 0x6a:
			if has(sc) {
				opReturnIn++
			}
		default:
			mustHave = vpAnd(mustHave, has(sc))
		}
	}
	blk := &wire.MsgBlock{Header: wire.BlockHeader{Version: 4, Nonce: 9}, Transactions: []*wire.MsgTx{cb, tx}}
	f, _ := gcs.FromNBytes(builder.DefaultP, builder.DefaultM, []byte{1, 0})
	vpModelFilters = append(vpModelFilters, &vpModelFilter{f: f, scripts: included})

	n, err := VerifyBasicBlockFilter(f, btcutil.NewBlock(blk))
	if mustHave {
		vpReach("complete-filter")
		vpAssert(err == nil, "filter-with-every-required-script-is-accepted")
		if err == nil {
			vpAssert(n == opReturnIn, "op-return-matches-counted")
		}
	} else {
		vpReach("filter-omits-a-required-script")
		vpAssert(err != nil, "filter-omitting-a-required-script-is-provably-false")
	}
}
