package neutrino

// C03 (filter-header checkpoints) — the real resolveConflict /
// checkCFCheckptSanity decide which served filter-header checkpoint list
// the client syncs towards.  The source overlay gives the harness network
// two hard-coded filter-header checkpoints (heights 1000 and 3000, i.e.
// entries 0 and 2 of a served list); peers serve lists of 1..3 entries in
// which any entry may be false.  Whatever Go's map order, the list
// returned never contradicts a hard-coded checkpoint, and a peer whose
// list does is banned for it.

import (
	"github.com/btcsuite/btcd/chainhash/v2"
	"github.com/btcsuite/btcd/wire/v2"
	"github.com/lightninglabs/neutrino/banman"
)

const vpHarnessNet = wire.BitcoinNet(0x76700001)

func VerifH_C03_checkpointConflict() {
	vpOpt("maporder", 2)
	params := vpRegtestParams()
	params.Net = vpHarnessNet
	e := vpNewBMEnv(2, 2, 1, params)
	if e == nil {
		return
	}
	// nobody answers the follow-up header queries (the stores here are far
	// below the first checkpoint interval)
	e.bm.cfg.queryAllPeers = func(queryMsg wire.Message,
		checkResponse func(sp *ServerPeer, resp wire.Message, quit chan<- struct{}, peerQuit chan<- struct{}),
		options ...QueryOption) {
	}
	truth := []chainhash.Hash{{0xf1, 0x01}, {0xaa, 0x02}, {0xf1, 0x03}}
	hardCoded := []bool{true, false, true}
	addrs := []string{"10.0.0.1:8333", "10.0.0.2:8333", "10.0.0.3:8333"}
	npeers := vpRange("peers", 1, vpParam("cppeers", 3))
	cps := map[string][]*chainhash.Hash{}
	contradicts := map[string]bool{}
	anyTrueFull := false
	for p := 0; p < npeers; p++ {
		n := vpRange("listLength", 1, 3)
		var l []*chainhash.Hash
		allTrue := true
		for i := 0; i < n; i++ {
			v := truth[i]
			if vpRange("entryFalse", 0, 1) == 1 {
				v[9] ^= byte(0x10 + p)
				allTrue = false
				if hardCoded[i] {
					contradicts[addrs[p]] = true
				}
			}
			vc := v
			l = append(l, &vc)
		}
		if allTrue && n == 3 {
			anyTrueFull = true
		}
		cps[addrs[p]] = l
	}
	served := map[string][]*chainhash.Hash{} // resolveConflict deletes from the map it is given
	for a, l := range cps {
		served[a] = l
	}
	res, err := e.bm.resolveConflict(cps, e.fs, wire.GCSFilterRegular)
	if err == nil {
		vpReach("a-list-was-chosen")
		vpAssert(len(res) > 0, "chosen-list-non-empty")
		for i := range res {
			if i < len(truth) && hardCoded[i] {
				vpAssert(*res[i] == truth[i], "chosen-checkpoint-list-equals-every-hard-coded-checkpoint")
			}
		}
	} else {
		vpReach("no-list-chosen")
	}
	for _, a := range addrs[:npeers] {
		if contradicts[a] {
			vpReach("peer-contradicts-a-hard-coded-checkpoint")
			vpAssert(e.banned(a, banman.InvalidFilterHeaderCheckpoint), "peer-contradicting-a-hard-coded-checkpoint-is-banned")
		}
	}
	// lists that disagree at an index both of them cover (among the peers not
	// banned for contradicting a hard-coded checkpoint) cannot simply be
	// accepted: nobody answers the follow-up queries here, so the disagreement
	// stays unresolved and no list may be chosen
	disagree := false
	for x := 0; x < npeers; x++ {
		for y := x + 1; y < npeers; y++ {
			if contradicts[addrs[x]] || contradicts[addrs[y]] {
				continue
			}
			lx, ly := served[addrs[x]], served[addrs[y]]
			for i := 0; i < len(lx) && i < len(ly); i++ {
				if *lx[i] != *ly[i] {
					disagree = true
				}
			}
		}
	}
	if disagree {
		vpReach("served-lists-disagree")
		vpAssert(err != nil, "disagreeing-lists-are-not-accepted-unresolved")
	}
	// when every list is a prefix of the truth nobody is banned and a list is chosen
	if len(contradicts) == 0 {
		allPrefix := true
		for _, a := range addrs[:npeers] {
			for i, h := range served[a] {
				if *h != truth[i] {
					allPrefix = false
				}
			}
		}
		if allPrefix {
			vpReach("all-lists-true")
			vpAssert(err == nil && len(e.bans) == 0, "agreeing-true-lists-are-accepted-and-nobody-is-banned")
		}
	}
	_ = anyTrueFull
}

// VerifH_C03_checkpointVsStore: the same decision with the checkpoint
// interval shrunk to 2 blocks (source transform), so that the parts of
// resolveConflict / checkCFCheckptSanity that compare served lists with
// filter headers the client has already committed are reachable: the
// filter-header store holds the true chain up to any height 0..6, the
// harness network has hard-coded filter-header checkpoints at heights 2
// and 6 (list entries 0 and 2).  Peers serve lists of 1..3 entries, any
// entry false; the follow-up cfheaders round is answered truthfully by
// everybody (a liar lies in its checkpoint list only) or by nobody.
func VerifH_C03_checkpointVsStore() {
	vpOpt("maporder", 2)
	if maxCFCheckptsPerQuery != 2 || vpCFCheckptInterval != 2 {
		vpAssert(false, "cpstore:checkpoint-interval-overlay-in-place")
		return
	}
	params := vpRegtestParams()
	params.Net = vpHarnessNet
	const n = 6
	ft := vpRange("filterTip", 0, n)
	e := vpNewBMEnv(n, n, ft, params)
	if e == nil {
		return
	}
	truth := []chainhash.Hash{e.filters[2], e.filters[4], e.filters[6]}
	hardCoded := []bool{true, false, true}
	addrs := []string{"10.0.0.1:8333", "10.0.0.2:8333", "10.0.0.3:8333"}
	npeers := vpRange("peers", 1, vpParam("cppeers", 2))
	answered := vpRange("followUpAnswered", 0, 1) == 1
	sps := make([]*ServerPeer, npeers)
	for p := range sps {
		sps[p] = vpMkServerPeer(addrs[p])
	}
	followUps := 0
	e.bm.cfg.queryAllPeers = func(queryMsg wire.Message,
		checkResponse func(sp *ServerPeer, resp wire.Message, quit chan<- struct{}, peerQuit chan<- struct{}),
		options ...QueryOption) {

		q, ok := queryMsg.(*wire.MsgGetCFHeaders)
		if !ok {
			return
		}
		followUps++
		if !answered {
			return
		}
		quit := make(chan struct{})
		for p := 0; p < npeers; p++ {
			resp := wire.NewMsgCFHeaders()
			resp.FilterType = q.FilterType
			resp.StopHash = q.StopHash
			if q.StartHeight > 0 {
				resp.PrevFilterHeader = e.filters[q.StartHeight-1]
			}
			for h := int(q.StartHeight); h <= n; h++ {
				fh := chainhash.Hash{0xa0, byte(h)}
				_ = resp.AddCFHash(&fh)
			}
			checkResponse(sps[p], resp, quit, make(chan struct{}))
		}
	}
	cps := map[string][]*chainhash.Hash{}
	served := map[string][]*chainhash.Hash{}
	contradicts := map[string]bool{}      // a hard-coded checkpoint
	contradictsStore := map[string]bool{} // a filter header the client has committed
	for p := 0; p < npeers; p++ {
		ln := vpRange("listLength", 1, 3)
		var l []*chainhash.Hash
		for i := 0; i < ln; i++ {
			v := truth[i]
			if vpRange("entryFalse", 0, 1) == 1 {
				v[9] ^= byte(0x10 + p)
				if hardCoded[i] {
					contradicts[addrs[p]] = true
				}
				if 2*(i+1) <= ft {
					contradictsStore[addrs[p]] = true
				}
			}
			vc := v
			l = append(l, &vc)
		}
		cps[addrs[p]] = l
		served[addrs[p]] = l
	}
	res, err := e.bm.resolveConflict(cps, e.fs, wire.GCSFilterRegular)
	if err == nil {
		vpReach("a-list-was-chosen")
		vpAssert(len(res) > 0, "cpstore:chosen-list-non-empty")
		for i := range res {
			if i < len(truth) && hardCoded[i] {
				vpAssert(*res[i] == truth[i], "cpstore:chosen-checkpoint-list-equals-every-hard-coded-checkpoint")
			}
			if i < len(truth) && 2*(i+1) <= ft {
				vpReach("chosen-list-covers-committed-filter-headers")
				vpAssert(*res[i] == truth[i], "cpstore:chosen-checkpoint-list-agrees-with-the-committed-filter-headers")
			}
		}
	} else {
		vpReach("no-list-chosen")
	}
	for _, a := range addrs[:npeers] {
		if contradicts[a] {
			vpReach("peer-contradicts-a-hard-coded-checkpoint")
			if 2 <= ft {
				vpReach("peer-contradicts-a-hard-coded-checkpoint-below-the-filter-tip")
			}
			banned := false
			for _, b := range e.bans {
				if b.addr == a && b.reason == banman.InvalidFilterHeaderCheckpoint {
					banned = true
				}
			}
			vpAssert(banned, "cpstore:peer-contradicting-a-hard-coded-checkpoint-is-banned")
		}
	}
	// a peer whose list is true in every entry is never banned when the
	// follow-up round is answered
	if answered {
		for _, a := range addrs[:npeers] {
			allTrue := true
			for i, h := range served[a] {
				if *h != truth[i] {
					allTrue = false
				}
			}
			if allTrue {
				for _, b := range e.bans {
					vpAssert(b.addr != a, "cpstore:peer-serving-only-true-checkpoints-is-not-banned")
				}
			}
		}
	}
	// when every list is a prefix of the truth a list is chosen without any follow-up
	allPrefix := true
	for _, a := range addrs[:npeers] {
		for i, h := range served[a] {
			if *h != truth[i] {
				allPrefix = false
			}
		}
	}
	if allPrefix {
		vpReach("all-lists-true")
		vpAssert(err == nil && len(e.bans) == 0 && followUps == 0, "cpstore:agreeing-true-lists-are-accepted-and-nobody-is-banned")
	}
	_ = contradictsStore
}
