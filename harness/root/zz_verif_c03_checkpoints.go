package neutrino

// C03 (filter-header checkpoints) — the real resolveConflict /
// checkCFCheckptSanity decide which served filter-header checkpoint list
// the client syncs towards.  The source overlay gives the harness network
// two hard-coded filter-header checkpoints (heights 1000 and 3000, i.e.
// entries 0 and 2 of a served list); peers serve lists of 1..3 entries in
// which any entry may be false.  Whatever Go's map order, the list
// returned never contradicts a hard-coded checkpoint, and a peer whose
// list does is banned for it.

import (
	"github.com/btcsuite/btcd/chainhash/v2"
	"github.com/btcsuite/btcd/wire/v2"
	"github.com/lightninglabs/neutrino/banman"
)

const vpHarnessNet = wire.BitcoinNet(0x76700001)

func VerifH_C03_checkpointConflict() {
	vpOpt("maporder", 2)
	params := vpRegtestParams()
	params.Net = vpHarnessNet
	e := vpNewBMEnv(2, 2, 1, params)
	if e == nil {
		return
	}
	// nobody answers the follow-up header queries (the stores here are far
	// below the first checkpoint interval)
	e.bm.cfg.queryAllPeers = func(queryMsg wire.Message,
		checkResponse func(sp *ServerPeer, resp wire.Message, quit chan<- struct{}, peerQuit chan<- struct{}),
		options ...QueryOption) {
	}
	truth := []chainhash.Hash{{0xf1, 0x01}, {0xaa, 0x02}, {0xf1, 0x03}}
	hardCoded := []bool{true, false, true}
	addrs := []string{"10.0.0.1:8333", "10.0.0.2:8333", "10.0.0.3:8333"}
	npeers := vpRange("peers", 1, vpParam("cppeers", 3))
	cps := map[string][]*chainhash.Hash{}
	contradicts := map[string]bool{}
	anyTrueFull := false
	for p := 0; p < npeers; p++ {
		n := vpRange("listLength", 1, 3)
		var l []*chainhash.Hash
		allTrue := true
		for i := 0; i < n; i++ {
			v := truth[i]
			if vpRange("entryFalse", 0, 1) == 1 {
				v[9] ^= byte(0x10 + p)
				allTrue = false
				if hardCoded[i] {
					contradicts[addrs[p]] = true
				}
			}
			vc := v
			l = append(l, &vc)
		}
		if allTrue && n == 3 {
			anyTrueFull = true
		}
		cps[addrs[p]] = l
	}
	served := map[string][]*chainhash.Hash{} // resolveConflict deletes from the map it is given
	for a, l := range cps {
		served[a] = l
	}
	res, err := e.bm.resolveConflict(cps, e.fs, wire.GCSFilterRegular)
	if err == nil {
		vpReach("a-list-was-chosen")
		vpAssert(len(res) > 0, "chosen-list-non-empty")
		for i := range res {
			if i < len(truth) && hardCoded[i] {
				vpAssert(*res[i] == truth[i], "chosen-checkpoint-list-equals-every-hard-coded-checkpoint")
			}
		}
	} else {
		vpReach("no-list-chosen")
	}
	for _, a := range addrs[:npeers] {
		if contradicts[a] {
			vpReach("peer-contradicts-a-hard-coded-checkpoint")
			vpAssert(e.banned(a, banman.InvalidFilterHeaderCheckpoint), "peer-contradicting-a-hard-coded-checkpoint-is-banned")
		}
	}
	// lists that disagree at an index both of them cover (among the peers not
	// banned for contradicting a hard-coded checkpoint) cannot simply be
	// accepted: nobody answers the follow-up queries here, so the disagreement
	// stays unresolved and no list may be chosen
	disagree := false
	for x := 0; x < npeers; x++ {
		for y := x + 1; y < npeers; y++ {
			if contradicts[addrs[x]] || contradicts[addrs[y]] {
				continue
			}
			lx, ly := served[addrs[x]], served[addrs[y]]
			for i := 0; i < len(lx) && i < len(ly); i++ {
				if *lx[i] != *ly[i] {
					disagree = true
				}
			}
		}
	}
	if disagree {
		vpReach("served-lists-disagree")
		vpAssert(err != nil, "disagreeing-lists-are-not-accepted-unresolved")
	}
	// when every list is a prefix of the truth nobody is banned and a list is chosen
	if len(contradicts) == 0 {
		allPrefix := true
		for _, a := range addrs[:npeers] {
			for i, h := range served[a] {
				if *h != truth[i] {
					allPrefix = false
				}
			}
		}
		if allPrefix {
			vpReach("all-lists-true")
			vpAssert(err == nil && len(e.bans) == 0, "agreeing-true-lists-are-accepted-and-nobody-is-banned")
		}
	}
	_ = anyTrueFull
}
