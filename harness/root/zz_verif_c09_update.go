package neutrino

// C09 (updates part): "... including outpoints created earlier in the
// rescan and items added or rewound to by updates, is delivered with that
// block".  The real rescanState.rescan loop runs with a real update
// channel (what Rescan.Update sends on); an update that adds a second
// watched outpoint and optionally rewinds arrives either at a symbolic
// chain-source call of the catch-up walk or while the rescan is current,
// and the chain may grow by one block afterwards.

import (
	"github.com/btcsuite/btcd/btcutil/v2"
	"github.com/btcsuite/btcd/btcutil/v2/gcs"
	"github.com/btcsuite/btcd/btcutil/v2/gcs/builder"
	"github.com/btcsuite/btcd/chainhash/v2"
	"github.com/btcsuite/btcd/rpcclient"
	"github.com/btcsuite/btcd/wire/v2"
	"github.com/lightninglabs/neutrino/blockntfns"
	"github.com/lightninglabs/neutrino/headerfs"
)

type vpSpend struct {
	op     wire.OutPoint
	script []byte
}

// addBlockSpends appends a block holding one transaction per given spend.
func (c *vpRescanChain) addBlockSpends(salt uint32, spends []vpSpend) {
	prev := c.best[len(c.best)-1]
	h := len(c.best)
	hdr := vpHonestHeader(&prev, h, salt)
	blk := &wire.MsgBlock{Header: hdr}
	cb := &wire.MsgTx{Version: 2, LockTime: salt, TxIn: []*wire.TxIn{{PreviousOutPoint: wire.OutPoint{Index: 0xffffffff}}},
		TxOut: []*wire.TxOut{{Value: 50, PkScript: []byte{0x51, byte(salt)}}}}
	blk.Transactions = append(blk.Transactions, cb)
	scripts := [][]byte{cb.TxOut[0].PkScript}
	for i, s := range spends {
		sp := &wire.MsgTx{Version: 2, LockTime: salt + 500 + uint32(i), TxIn: []*wire.TxIn{{PreviousOutPoint: s.op}},
			TxOut: []*wire.TxOut{{Value: 1, PkScript: []byte{0x52, byte(salt), byte(i)}}}}
		blk.Transactions = append(blk.Transactions, sp)
		scripts = append(scripts, s.script, sp.TxOut[0].PkScript)
	}
	f, _ := gcs.FromNBytes(builder.DefaultP, builder.DefaultM, []byte{1, byte(len(vpModelFilters))})
	vpModelFilters = append(vpModelFilters, &vpModelFilter{f: f, scripts: scripts})
	bh := hdr.BlockHash()
	c.blocks[bh] = blk
	c.filters[bh] = f
	c.best = append(c.best, hdr)
	if c.subOpen {
		c.sub <- blockntfns.NewBlockConnected(hdr, uint32(h))
	}
}

type vpUpdEvent struct {
	connected bool
	height    int32
	header    wire.BlockHeader
	txs       int
}

// VerifH_C09_update: see the file comment.
func VerifH_C09_update() {
	vpOpt("clock", 1)
	vpOpt("timers", vpParam("timers", 1))
	vpModelFilters = nil
	g := vpHonestHeader(nil, 0, 0)
	gh := g.BlockHash()
	params := vpRegtestParams()
	params.GenesisBlock = &wire.MsgBlock{Header: g}
	params.GenesisHash = &gh
	c := &vpRescanChain{params: params, best: []wire.BlockHeader{g}, blocks: map[chainhash.Hash]*wire.MsgBlock{},
		filters: map[chainhash.Hash]*gcs.Filter{}}
	opA := wire.OutPoint{Hash: chainhash.Hash{0xaa}, Index: 1}
	opB := wire.OutPoint{Hash: chainhash.Hash{0xbb}, Index: 0}
	scriptA := []byte{0x00, 0x14, 0x77}
	scriptB := []byte{0x00, 0x14, 0x88}

	n := vpRange("initialBlocks", vpParam("minblocks", 2), vpParam("maxblocks", 3))
	grow := vpRange("growAfterUpdate", 0, 1)
	spendA := vpRange("spendAAt", 0, n+1) // 0 = never; n+1: in the block that may be added later
	spendB := vpRange("spendBAt", 0, n+1)
	salt := uint32(1)
	mk := func() {
		h := len(c.best)
		var sp []vpSpend
		if h == spendA {
			sp = append(sp, vpSpend{opA, scriptA})
		}
		if h == spendB {
			sp = append(sp, vpSpend{opB, scriptB})
		}
		c.addBlockSpends(salt, sp)
		salt++
	}
	for i := 0; i < n; i++ {
		mk()
	}

	var walk []vpUpdEvent
	quit := make(chan struct{})
	upd := make(chan *updateOptions) // unbuffered, as in NewRescan
	// the rewind height is any 32-bit value up to one above the tip (0 = no rewind)
	rewindTo := vpU32("rewindTo")
	vpAssume(rewindTo <= uint32(n)+1)
	withA := vpRange("watchAFromTheStart", 0, 1) == 1
	sentIdx, recvIdx, sentH := -1, -1, int32(-1)
	received := false
	curHNow := func() int32 {
		h := int32(0)
		for _, ev := range walk {
			if ev.connected {
				h = ev.height
			} else {
				h = ev.height - 1
			}
		}
		return h
	}
	send := func() {
		sentIdx = len(walk)
		sentH = curHNow()
		go func() {
			uo := defaultUpdateOptions()
			AddInputs(InputWithScript{OutPoint: opB, PkScript: scriptB})(uo)
			if rewindTo > 0 {
				Rewind(rewindTo)(uo)
			}
			select {
			case upd <- uo:
				received = true
				recvIdx = len(walk)
			case <-quit:
			}
		}()
	}
	// the update is sent at the k-th chain-source call of the rescan (0: once it waits for notifications)
	c.pending = []func(){send}
	// ... or while the rescan still waits for the backend to become current
	// (the next block notification ends that wait)
	initialWait := vpParam("initialwait", 1) == 1 && vpRange("updateDuringTheInitialWait", 0, 1) == 1
	if initialWait {
		c.notCurrent = true
		grow = 1
	} else {
		c.fireAt = vpRange("updateAtCall", 0, vpParam("maxcall", 6))
	}
	c.filterFailures = vpRange("filterFailures", 0, vpParam("failures", 1))
	injected := c.filterFailures

	opts := []RescanOption{
		StartBlock(&headerfs.BlockStamp{Height: 0, Hash: gh}),
		QuitChan(quit),
		updateChan(upd),
		NotificationHandlers(rpcclient.NotificationHandlers{
			OnFilteredBlockConnected: func(height int32, header *wire.BlockHeader, txs []*btcutil.Tx) {
				walk = append(walk, vpUpdEvent{true, height, *header, len(txs)})
			},
			OnFilteredBlockDisconnected: func(height int32, header *wire.BlockHeader) {
				walk = append(walk, vpUpdEvent{false, height, *header, 0})
			},
		}),
	}
	if withA {
		opts = append(opts, WatchInputs(InputWithScript{OutPoint: opA, PkScript: scriptA}))
	}
	rs, err := newRescanState(c, opts...)
	if err != nil {
		vpAssert(false, "rescan-state-created")
		return
	}
	var rerr error
	done := make(chan struct{})
	go func() {
		rerr = rs.rescan()
		close(done)
	}()
	vpQuiesce()
	for len(c.pending) > 0 {
		f := c.pending[0]
		c.pending = c.pending[1:]
		f()
		vpQuiesce()
	}
	if grow == 1 {
		if initialWait {
			vpAssert(received, "update-is-taken-while-the-rescan-waits-for-the-backend")
			vpReach("update-during-the-initial-wait")
			c.notCurrent = false
		}
		mk()
		vpReach("chain-grew-after-the-update")
		vpQuiesce()
	}
	vpQuiesce()
	close(quit)
	<-done

	if rerr != ErrRescanExit {
		vpReach("rescan-ended-with-error")
		if rerr != nil {
			vpNote("err: " + rerr.Error())
		}
		// a filter fetch that fails during the catch-up walk ends the rescan
		// with that error (as in the walk harness); anything else is a fault
		vpAssert(injected > 0, "rescan-survives-an-update")
		return
	}
	if !received {
		vpAssert(false, "update-is-taken-by-the-rescan")
		return
	}
	vpReach("update-applied")
	if rewindTo > 0 && int32(rewindTo) < sentH {
		vpReach("update-rewinds-below-the-current-block")
	}
	if sentIdx > 0 && c.fireAt == 0 && sentH < int32(n) {
		vpReach("update-during-the-catch-up-walk")
	}

	// ---- the callbacks form a valid walk, and carry the relevant transactions ----
	count := func(hdr wire.BlockHeader, withB bool) int {
		blk := c.blocks[hdr.BlockHash()]
		k := 0
		if blk == nil {
			return 0
		}
		for _, tx := range blk.Transactions {
			for _, in := range tx.TxIn {
				if (withA && in.PreviousOutPoint == opA) || (withB && in.PreviousOutPoint == opB) {
					k++
				}
			}
		}
		return k
	}
	cur, curH := g, int32(0)
	applied := false // the update has certainly been applied (a rewind disconnect was seen, or Update returned)
	lastConn := map[int32]int{}
	for i, ev := range walk {
		if i >= recvIdx {
			applied = true
		}
		if ev.connected {
			vpAssert(ev.header.PrevBlock == cur.BlockHash(), "connected-block-is-a-child-of-the-current-block")
			vpAssert(ev.height == curH+1, "connected-height-is-current-plus-one")
			cur, curH = ev.header, ev.height
			lastConn[ev.height] = i
			oldN, newN := count(ev.header, false), count(ev.header, true)
			switch {
			case i < sentIdx:
				vpAssert(ev.txs == oldN, "before-the-update:relevant-transactions-delivered-with-their-block")
			case applied:
				if newN > oldN {
					vpReach("tx-relevant-only-through-the-update")
				}
				vpAssert(ev.txs == newN, "after-the-update:transactions-of-added-items-delivered-with-their-block")
			default:
				vpAssert(ev.txs == oldN || ev.txs == newN, "during-the-update:relevant-transactions-delivered-with-their-block")
			}
		} else {
			// the chain never reorganises here: every disconnect is the update rewinding
			vpAssert(i >= sentIdx, "no-disconnect-without-a-rewind")
			applied = true
			vpAssert(ev.header == cur && ev.height == curH, "disconnect-removes-exactly-the-current-block")
			vpAssert(rewindTo > 0 && ev.height > int32(rewindTo), "rewind-stops-at-the-requested-height")
			if curH == 0 {
				vpAssert(false, "rewind-never-disconnects-genesis")
				break
			}
			cur, curH = c.best[curH-1], curH-1
		}
	}
	if c.filterFailures == 0 {
		vpAssert(cur == c.best[len(c.best)-1] && int(curH) == len(c.best)-1, "walk-ends-at-the-chain-tip")
		// everything above the rewind height was delivered (again) after the update was sent
		for h := int32(1); h <= curH; h++ {
			idx, ok := lastConn[h]
			vpAssert(vpImplies(vpAnd(rewindTo > 0, h > int32(rewindTo)), ok && idx >= sentIdx),
				"blocks-above-the-rewind-height-are-delivered-again-with-the-new-items")
		}
	}
}
