package neutrino

// C05 — a compact filter is returned only if it matches the committed
// filter header.  The real GetCFilter, prepareCFiltersQuery and
// cfiltersQuery.handleResponse run against slice-model header stores, the
// real LRU filter cache, the real filter database (on the walletdb model)
// behind the real BatchWriter, and a stub work manager feeding a symbolic response stream.

import (
	"errors"
	"time"

	"github.com/btcsuite/btcd/btcutil/v2/gcs"
	"github.com/btcsuite/btcd/btcutil/v2/gcs/builder"
	"github.com/btcsuite/btcd/chaincfg/v2"
	"github.com/btcsuite/btcd/chainhash/v2"
	"github.com/btcsuite/btcd/wire/v2"
	"github.com/lightninglabs/neutrino/cache/lru"
	"github.com/lightninglabs/neutrino/chanutils"
	"github.com/lightninglabs/neutrino/filterdb"
	"github.com/lightninglabs/neutrino/query"
)

// vpFilterDB: the real filterdb.FilterStore on the walletdb model (which,
// like bbolt, keeps a reference to a stored value until the transaction
// commits), with a record of what was put.
type vpFilterDB struct {
	real *filterdb.FilterStore
	keys []chainhash.Hash
	puts int
}

func (d *vpFilterDB) PutFilters(fs ...*filterdb.FilterData) error {
	for _, f := range fs {
		d.puts++
		d.keys = append(d.keys, *f.BlockHash)
	}
	if len(fs) > 1 {
		vpReach("several-filters-persisted-in-one-transaction")
	}
	return d.real.PutFilters(fs...)
}
func (d *vpFilterDB) FetchFilter(h *chainhash.Hash, t filterdb.FilterType) (*gcs.Filter, error) {
	return d.real.FetchFilter(h, t)
}
func (d *vpFilterDB) PurgeFilters(filterdb.FilterType) error { return nil }

type vpMsgStream struct {
	msgs    []wire.Message
	handled int
	queries int
	reqs    []*wire.MsgGetCFilters
}

func (w *vpMsgStream) Start() error { return nil }
func (w *vpMsgStream) Stop() error  { return nil }
func (w *vpMsgStream) Query(reqs []*query.Request, _ ...query.QueryOption) chan error {
	w.queries++
	if g, ok := reqs[0].Req.(*wire.MsgGetCFilters); ok {
		w.reqs = append(w.reqs, g)
	}
	errChan := make(chan error, 1)
	for _, m := range w.msgs {
		w.handled++
		p := reqs[0].HandleResp(reqs[0].Req, m, "10.0.0.1:8333")
		if p.Finished {
			errChan <- nil
			return errChan
		}
	}
	errChan <- errors.New("vp: query failed after all retries")
	return errChan
}

// vpFilterVerifies: the filter hashes with the committed header of the
// previous block to the committed header of its block.
func vpFilterVerifies(f *gcs.Filter, committed []chainhash.Hash, height int) bool {
	h, err := builder.MakeHeaderForFilter(f, committed[height-1])
	if err != nil {
		return false
	}
	return h == committed[height]
}

// VerifH_C05_getCFilter: see the file comment.
func VerifH_C05_getCFilter() {
	vpOpt("clock", 1)
	nblocks := vpParam("blocks", 3)
	// ---- chain, honest filter data and committed filter headers ----
	hdrs := []wire.BlockHeader{{Version: 1, Bits: 0x207fffff, Timestamp: time.Unix(1296688602, 0)}}
	datas := [][]byte{nil}
	committed := []chainhash.Hash{{0xc0}}
	for j := 1; j <= nblocks; j++ {
		hdrs = append(hdrs, wire.BlockHeader{Version: 2, PrevBlock: hdrs[j-1].BlockHash(), Bits: 0x207fffff,
			Timestamp: time.Unix(1296688602+int64(j)*600, 0), Nonce: uint32(j)})
		d := []byte{1, byte(j), vpU8("filterByte")} // varint N=1, then two data bytes
		datas = append(datas, d)
		f, err := gcs.FromNBytes(builder.DefaultP, builder.DefaultM, d)
		if err != nil {
			vpAssert(false, "honest-filter-parses")
			return
		}
		h, _ := builder.MakeHeaderForFilter(f, committed[j-1])
		committed = append(committed, h)
	}
	ft := vpRange("filterTip", 1, nblocks) // filter headers may lag the block headers
	bs := &vpBlockStore{hdrs: hdrs, ctl: &vpWriteCtl{}}
	fs := &vpFilterStore{hashes: append([]chainhash.Hash(nil), committed[:ft+1]...), ctl: &vpWriteCtl{}, blocks: bs}

	// ---- the response stream ----
	nresp := vpRange("responses", 0, vpParam("maxresponses", 3))
	stream := &vpMsgStream{}
	var respBlk, respKind []int
	for k := 0; k < nresp; k++ {
		j := vpRange("respBlock", 1, nblocks)
		bh := hdrs[j].BlockHash()
		kind := vpRange("respKind", 0, vpParam("kinds", 5))
		respBlk, respKind = append(respBlk, j), append(respKind, kind)
		switch kind {
		case 0: // the honest filter of block j
			stream.msgs = append(stream.msgs, wire.NewMsgCFilter(wire.GCSFilterRegular, &bh, datas[j]))
		case 1: // data that is not the committed filter of block j
			bad := append([]byte(nil), datas[j]...)
			bad[2] = vpU8("badByte")
			vpAssume(bad[2] != datas[j][2])
			stream.msgs = append(stream.msgs, wire.NewMsgCFilter(wire.GCSFilterRegular, &bh, bad))
		case 2: // the honest data of ANOTHER block under block j's hash
			o := j%nblocks + 1
			stream.msgs = append(stream.msgs, wire.NewMsgCFilter(wire.GCSFilterRegular, &bh, datas[o]))
		case 3: // wrong filter type
			stream.msgs = append(stream.msgs, wire.NewMsgCFilter(wire.FilterType(7), &bh, datas[j]))
		case 4: // a block that is not on the chain
			u := (&wire.BlockHeader{Version: 9, Nonce: uint32(j)}).BlockHash()
			stream.msgs = append(stream.msgs, wire.NewMsgCFilter(wire.GCSFilterRegular, &u, datas[j]))
		case 5: // not a cfilter message / malformed (empty) data
			if vpRange("garbage", 0, 1) == 0 {
				stream.msgs = append(stream.msgs, wire.NewMsgPing(3))
			} else {
				stream.msgs = append(stream.msgs, wire.NewMsgCFilter(wire.GCSFilterRegular, &bh, nil))
			}
		}
	}

	gh := hdrs[0].BlockHash()
	realDB, ferr := filterdb.New(vpNewDB(), chaincfg.Params{Net: wire.SimNet, GenesisBlock: &wire.MsgBlock{Header: hdrs[0]}, GenesisHash: &gh})
	if ferr != nil {
		vpAssert(false, "filter-database-created")
		return
	}
	fdb := &vpFilterDB{real: realDB}
	persist := vpRange("persist", 0, 1) == 1
	s := &ChainService{
		BlockHeaders:     bs,
		RegFilterHeaders: fs,
		FilterCache:      lru.NewCache[FilterCacheKey, *CacheableFilter](1 << 20),
		FilterDB:         fdb,
		workManager:      stream,
		persistToDisk:    persist,
		chainParams:      chaincfg.Params{Net: wire.SimNet},
		quit:             make(chan struct{}),
	}
	if persist {
		s.filterBatchWriter = chanutils.NewBatchWriter(&chanutils.BatchWriterConfig[*filterdb.FilterData]{
			QueueBufferSize:        8,
			MaxBatch:               2,
			DBWritesTickerDuration: time.Second,
			PutItems:               fdb.PutFilters,
		})
		s.filterBatchWriter.Start()
	}

	// an earlier call may have left the (verified) filter of one block in the cache
	pre := vpRange("precached", 0, ft)
	if pre > 0 {
		f, err := gcs.FromNBytes(builder.DefaultP, builder.DefaultM, datas[pre])
		if err == nil {
			pbh := hdrs[pre].BlockHash()
			s.putFilterToCache(&pbh, filterdb.RegularFilter, f)
			vpReach("precached")
		}
	}
	target := vpRange("target", 1, nblocks)
	var opts []QueryOption
	switch vpRange("batch", 0, 2) {
	case 1:
		opts = append(opts, OptimisticBatch())
	case 2:
		opts = append(opts, OptimisticReverseBatch())
	}
	if vpRange("cap", 0, vpParam("caps", 1)) == 1 {
		opts = append(opts, MaxBatchSize(2))
	}
	// a database written by an older release may hold an entry with an empty
	// value for a block (a placeholder, not a filter): it justifies nothing
	// (quick: for the requested block; thorough: for any block)
	ph := 0
	switch vpParam("placeholders", 1) {
	case 1:
		ph = target * vpRange("emptyDatabaseEntryForTheTarget", 0, 1)
	case 2:
		ph = vpRange("emptyDatabaseEntryFor", 0, nblocks)
	}
	if ph > 0 {
		pbh := hdrs[ph].BlockHash()
		perr := realDB.PutFilters(&filterdb.FilterData{Filter: nil, BlockHash: &pbh, Type: filterdb.RegularFilter})
		vpAssert(perr == nil, "placeholder-written")
		vpReach("database-holds-an-empty-entry")
	}
	th := hdrs[target].BlockHash()
	got, gerr := s.GetCFilter(th, wire.GCSFilterRegular, opts...)
	if persist {
		vpQuiesce()                // the queue hands everything over to the writer
		s.filterBatchWriter.Stop() // flushes what was queued
	}

	if target > ft {
		vpReach("target-above-filter-tip")
		vpAssert(gerr != nil && got == nil, "no-filter-without-a-committed-header")
	}
	if got != nil {
		vpReach("filter-returned")
		vpAssert(gerr == nil, "filter-and-error-exclusive")
		vpAssert(vpFilterVerifies(got, committed, target), "returned-filter-matches-committed-header")
	} else {
		vpReach("call-failed")
		vpAssert(gerr != nil, "fails-rather-than-return-nothing")
	}
	// on success the request covered the target within the committed chain
	for _, g := range stream.reqs {
		if got == nil {
			break
		}
		stopH, err := bs.HeightFromHash(&g.StopHash)
		vpAssert(err == nil, "request-stop-hash-is-on-the-chain")
		if err != nil {
			continue
		}
		vpAssert(int(g.StartHeight) >= 1 && int(g.StartHeight) <= target && target <= int(stopH) && int(stopH) <= ft, "request-range-covers-target-within-committed-chain")
	}
	// a filter can only come from somewhere legitimate: it was cached before,
	// or a response of the requested type, for that very block, carrying the
	// committed data was handed to the handler.  (A response labelled with
	// another filter type justifies nothing, whatever its payload.)
	justified := func(j int) bool {
		if j == pre {
			return true
		}
		for k := 0; k < stream.handled && k < len(respKind); k++ {
			if respKind[k] == 0 && respBlk[k] == j {
				return true
			}
		}
		return false
	}
	if got != nil {
		vpAssert(justified(target), "returned-filter-came-from-a-well-formed-response-for-that-block")
	}
	// cache and database hold only verified filters, under the right block
	for j := 1; j <= nblocks; j++ {
		bh := hdrs[j].BlockHash()
		_, cerr := s.FilterCache.Get(FilterCacheKey{BlockHash: bh, FilterType: filterdb.RegularFilter})
		dbf, derr := fdb.FetchFilter(&bh, filterdb.RegularFilter)
		if cerr == nil || (derr == nil && dbf != nil) {
			vpAssert(justified(j), "stored-filter-came-from-a-well-formed-response-for-that-block")
		}
		if cf, err := s.FilterCache.Get(FilterCacheKey{BlockHash: bh, FilterType: filterdb.RegularFilter}); err == nil {
			vpReach("cached")
			vpAssert(j <= ft && vpFilterVerifies(cf.Filter, committed, j), "cached-filter-matches-committed-header")
		}
		if df, err := fdb.FetchFilter(&bh, filterdb.RegularFilter); err == nil && df != nil {
			vpReach("persisted")
			vpAssert(j <= ft && vpFilterVerifies(df, committed, j), "persisted-filter-matches-committed-header")
		}
	}
	for i := range fdb.keys {
		_, err := bs.HeightFromHash(&fdb.keys[i])
		vpAssert(err == nil, "persisted-only-for-chain-blocks")
	}
	if !persist {
		vpAssert(fdb.puts == 0, "nothing-persisted-when-not-asked")
	}
	// a later lookup (cache, then database) still only yields a verified filter
	if got != nil {
		q0 := stream.queries
		again, err := s.GetCFilter(th, wire.GCSFilterRegular)
		vpAssert(err == nil && again != nil && stream.queries == q0, "second-call-served-locally")
		if again != nil {
			vpAssert(vpFilterVerifies(again, committed, target), "second-call-filter-matches-committed-header")
		}
	}
	// any other filter type is refused
	_, terr := s.GetCFilter(th, wire.FilterType(3))
	vpAssert(terr != nil, "unknown-filter-type-refused")
}
