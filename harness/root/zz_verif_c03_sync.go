package neutrino

// C03 (checkpointed sync): the real getCheckpointedCFHeaders - request
// generation per checkpoint interval, response verification against the
// checkpoints (checkpointedCFHeadersQuery.handleResponse), re-ordering of
// out-of-order responses, the offset into the first range when the filter
// tip sits inside an interval, and writeCFHeadersMsg - with the checkpoint
// interval shrunk from 1000 to 2 blocks (regenerated source overlay of
// btcd's wire constant), against a scripted dispatcher that answers the
// requests in any order, lets a liar answer first, or gives up.

import (
	"github.com/btcsuite/btcd/chainhash/v2"
	"github.com/btcsuite/btcd/wire/v2"
	"github.com/lightninglabs/neutrino/banman"
	"github.com/lightninglabs/neutrino/blockntfns"
	"github.com/lightninglabs/neutrino/query"
)

// vpCFCheckptInterval stands for wire.CFCheckptInterval in blockmanager.go
// under the sync group's source transform.
const vpCFCheckptInterval = 2

type vpCFDispatcher struct {
	e       *vpBMEnv
	fh      []chainhash.Hash // true filter hashes by height
	asked   [][2]int         // requested ranges
	failed  bool
	liars   int
	queries int
}

const vpLiarAddr, vpHonestAddr = "10.9.9.9:8333", "10.1.1.1:8333"

func (d *vpCFDispatcher) Query(reqs []*query.Request, _ ...query.QueryOption) chan error {
	d.queries++
	errChan := make(chan error, 1)
	left := append([]*query.Request(nil), reqs...)
	for len(left) > 0 {
		// the peers answer the outstanding requests in any order
		k := 0
		if len(left) > 1 {
			k = vpRange("answeredNext", 0, len(left)-1)
			if k != 0 {
				vpReach("answers-arrive-out-of-order")
			}
		}
		r := left[k]
		left = append(left[:k:k], left[k+1:]...)
		q, ok := r.Req.(*wire.MsgGetCFHeaders)
		if !ok {
			vpAssert(false, "sync:requests-are-getcfheaders")
			continue
		}
		stopH := -1
		for h := range d.e.chain {
			if d.e.chain[h].BlockHash() == q.StopHash {
				stopH = h
			}
		}
		start := int(q.StartHeight)
		vpAssert(stopH >= start && start >= 1, "sync:request-range-is-on-the-chain")
		if stopH < start || start < 1 {
			continue
		}
		d.asked = append(d.asked, [2]int{start, stopH})
		mk := func() *wire.MsgCFHeaders {
			resp := wire.NewMsgCFHeaders()
			resp.FilterType = q.FilterType
			resp.StopHash = q.StopHash
			resp.PrevFilterHeader = d.e.filters[start-1]
			for h := start; h <= stopH; h++ {
				fh := d.fh[h]
				_ = resp.AddCFHash(&fh)
			}
			return resp
		}
		switch vpRange("answer", 0, vpParam("answers", 2)) {
		case 1:
			// a liar answers first: one filter hash altered, so the range does not reach the checkpoint
			bad := mk()
			alt := chainhash.Hash{0xee, byte(start)}
			bad.FilterHashes[vpRange("alteredAt", 0, len(bad.FilterHashes)-1)] = &alt
			p := r.HandleResp(r.Req, bad, vpLiarAddr)
			d.liars++
			vpReach("a-liar-answers-first")
			vpAssert(!p.Finished, "sync:false-range-does-not-finish-the-request")
		case 2:
			// nobody answers this one: the batch fails
			d.failed = true
			vpReach("the-batch-fails")
			errChan <- query.ErrQueryTimeout
			return errChan
		}
		p := r.HandleResp(r.Req, mk(), vpHonestAddr)
		vpAssert(p.Finished, "sync:true-range-finishes-the-request")
	}
	errChan <- nil
	return errChan
}

// VerifH_C03_checkpointedSync: see the file comment.
func VerifH_C03_checkpointedSync() {
	if maxCFCheckptsPerQuery != 2 {
		vpAssert(false, "sync:checkpoint-interval-overlay-in-place")
		return
	}
	L := vpRange("checkpoints", 1, vpParam("maxcheckpoints", 3))
	n := 2*L + vpRange("blocksAboveTheLastCheckpoint", 0, 1)
	ft := vpRange("filterTip", 0, 2*L-1) // anywhere below the last checkpoint, also inside an interval
	fh := make([]chainhash.Hash, n+1)
	// every filter header, the genesis one included, is a digest (a constant
	// would leave "digest == constant" undecided in the uninterpreted hash model)
	gf := chainhash.DoubleHashH([]byte{0x0f})
	e := vpNewBMEnvOpt(n, n, ft, vpRegtestParams(), vpEnvOpt{genesisFilter: &gf, filterFor: func(h int, prev chainhash.Hash) chainhash.Hash {
		fh[h] = chainhash.Hash{0xa0, byte(h)}
		return vpFilterHeaderAfter(fh[h], prev)
	}})
	if e == nil {
		return
	}
	var cps []*chainhash.Hash
	for i := 1; i <= L; i++ {
		c := e.filters[2*i]
		cps = append(cps, &c)
	}
	d := &vpCFDispatcher{e: e, fh: fh}
	e.bm.cfg.QueryDispatcher = d
	if ft%2 != 0 {
		vpReach("filter-tip-inside-an-interval")
	}

	e.bm.getCheckpointedCFHeaders(cps, e.fs, wire.GCSFilterRegular)
	vpQuiesce()

	// ---- what is committed is the true chain, in step with the block chain ----
	vpAssert(!e.ftAboveBt, "sync:filter-chain-never-ahead-of-block-chain")
	newTip := len(e.fs.hashes) - 1
	vpAssert(newTip >= ft, "sync:nothing-lost")
	for h := 0; h <= newTip && h <= n; h++ {
		vpAssert(e.fs.hashes[h] == e.filters[h], "sync:committed-filter-header-is-the-true-one-at-its-height")
	}
	tipHdr, tipH, terr := e.fs.ChainTip()
	vpAssert(terr == nil && int(tipH) == newTip && *tipHdr == e.filters[newTip], "sync:filter-tip-readable-and-true")
	if !d.failed {
		vpReach("sync-completed")
		vpAssert(newTip == 2*L, "sync:reaches-the-last-checkpoint")
		vpAssert(d.queries == 1, "sync:one-batch")
	} else {
		vpAssert(newTip <= 2*L, "sync:never-beyond-the-last-checkpoint")
	}
	// the requests cover every interval above the filter tip's, none twice
	covered := make([]int, n+1)
	for _, a := range d.asked {
		for h := a[0]; h <= a[1]; h++ {
			covered[h]++
		}
	}
	if !d.failed {
		for h := ft + 1; h <= 2*L; h++ {
			vpAssert(covered[h] == 1, "sync:every-missing-height-requested-exactly-once")
		}
	}
	// ---- events: one connected event per newly committed block, in order, after its commitment ----
	want := ft + 1
	for _, ev := range e.events {
		c, ok := ev.ntfn.(*blockntfns.Connected)
		if !ok {
			vpAssert(false, "sync:only-connected-events")
			continue
		}
		vpAssert(int(c.Height()) == want && c.Header() == e.chain[want], "sync:connected-events-in-height-order-for-the-committed-blocks")
		vpAssert(ev.ft >= int(c.Height()), "sync:announced-only-after-the-commitment-is-stored")
		want++
	}
	vpAssert(want == newTip+1, "sync:one-connected-event-per-committed-block")
	// ---- bans: the liar (if it answered) and nobody else ----
	if d.liars > 0 {
		vpAssert(e.banned(vpLiarAddr, banman.InvalidFilterHeaderCheckpoint), "sync:peer-serving-a-range-that-misses-the-checkpoint-is-banned")
	}
	for _, b := range e.bans {
		vpAssert(b.addr != vpHonestAddr, "sync:honest-peer-not-banned")
	}
}
