package neutrino

// C13 (enforcement kernels): peers without witness + compact-filter
// service are banned and disconnected; a banned address is refused by
// handleAddPeerMsg and outboundPeerConnected; BanPeer/IsBanned agree for
// every spelling of one IP.

import (
	"net"
	"time"

	"github.com/btcsuite/btcd/chaincfg/v2"
	"github.com/btcsuite/btcd/connmgr"
	"github.com/btcsuite/btcd/peer"
	"github.com/btcsuite/btcd/wire/v2"
	"github.com/lightninglabs/neutrino/banman"
)

type vpTimeSource struct{}

func (vpTimeSource) AdjustedTime() time.Time              { return time.Unix(1700000000, 0) }
func (vpTimeSource) AddTimeSample(id string, t time.Time) {}
func (vpTimeSource) Offset() time.Duration                { return 0 }

type vpAddr string

func (a vpAddr) Network() string { return "tcp" }
func (a vpAddr) String() string  { return string(a) }

func vpChainService() *ChainService {
	// consecutive clock readings are at most a minute apart (a ban lasts 24h)
	vpOpt("timestep", 60)
	db := vpNewDB()
	store, err := banman.NewStore(db)
	if err != nil {
		vpAssert(false, "ban-store-created")
	}
	params := chaincfg.Params{Net: wire.SimNet}
	return &ChainService{
		banStore:    store,
		timeSource:  vpTimeSource{},
		chainParams: params,
		quit:        make(chan struct{}),
	}
}

var vpAddrs = []string{"1.2.3.4:8333", "[2001:db8::1]:8333", "10.0.0.7:18555"}

// VerifH_C13_onVersion: for arbitrary service bits, the peer is banned
// (reason NoCompactFilters) and disconnected iff the witness or the
// compact-filter bit is missing.
func VerifH_C13_onVersion() {
	s := vpChainService()
	addr := vpAddrs[vpRange("addr", 0, len(vpAddrs)-1)]
	sp := &ServerPeer{Peer: &peer.Peer{}, server: s}
	services := vpU64("services")
	vpPeerSet(sp.Peer, "Addr", addr)
	vpPeerSet(sp.Peer, "Services", wire.ServiceFlag(services))
	vpPeerSet(sp.Peer, "Inbound", true)
	rej := sp.OnVersion(sp.Peer, &wire.MsgVersion{Timestamp: time.Unix(1700000000, 0)})
	vpAssert(rej == nil, "no-reject-message")
	ok := vpAnd(services&uint64(wire.SFNodeWitness) != 0, services&uint64(wire.SFNodeCF) != 0)
	banned := s.IsBanned(addr)
	disc := vpPeerDisconnects(sp.Peer) > 0
	if ok {
		vpReach("services-ok")
		vpAssert(!banned, "good-peer-not-banned")
		vpAssert(!disc, "good-peer-not-disconnected")
	} else {
		vpReach("services-missing")
		vpAssert(banned, "missing-service-peer-banned")
		vpAssert(disc, "missing-service-peer-disconnected")
		ipNet, _ := banman.ParseIPNet(addr, nil)
		st, err := s.banStore.Status(ipNet)
		vpAssert(err == nil && st.Reason == banman.NoCompactFilters, "ban-reason-no-compact-filters")
	}
}

// VerifH_C13_refuseBanned: once an address is banned (under any
// spelling), a peer with that address is disconnected and not added,
// and an outbound connection to it is dropped; an unbanned address
// passes both gates.
func VerifH_C13_refuseBanned() {
	s := vpChainService()
	spell := [][]string{
		{"1.2.3.4:8333", "[::ffff:1.2.3.4]:8333", "1.2.3.4"},
		{"[2001:db8::1]:8333", "[2001:0db8:0:0:0:0:0:1]:8333", "2001:db8::1"},
	}
	g := spell[vpRange("ip", 0, 1)]
	banAs := g[vpRange("banSpelling", 0, 2)]
	seenAs := g[vpRange("seenSpelling", 0, 1)]
	doBan := vpRange("ban", 0, 1) == 1
	if doBan {
		err := s.BanPeer(banAs, banman.InvalidBlock)
		vpAssert(err == nil, "ban-peer-ok")
		vpAssert(s.IsBanned(seenAs), "banned-under-every-spelling")
	} else {
		vpAssert(!s.IsBanned(seenAs), "not-banned-initially")
	}

	// gate 1: handleAddPeerMsg
	state := &peerState{
		outboundPeers:   make(map[int32]*ServerPeer),
		persistentPeers: make(map[int32]*ServerPeer),
		outboundGroups:  make(map[string]int),
	}
	sp := &ServerPeer{Peer: &peer.Peer{}, server: s}
	vpPeerSet(sp.Peer, "Addr", seenAs)
	vpPeerSet(sp.Peer, "ID", int32(7))
	s.blockManager = &blockManager{peerChan: make(chan interface{}, 4), quit: make(chan struct{})}
	added := s.handleAddPeerMsg(state, sp)
	if doBan {
		vpReach("banned-peer-refused")
		vpAssert(!added, "banned-peer-not-added")
		vpAssert(vpPeerDisconnects(sp.Peer) > 0, "banned-peer-disconnected")
		vpAssert(state.Count() == 0, "banned-peer-not-kept")
		vpAssert(len(s.blockManager.peerChan) == 0, "banned-peer-not-announced-to-block-manager")
	} else {
		vpReach("clean-peer-added")
		vpAssert(added, "clean-peer-added")
		vpAssert(vpPeerDisconnects(sp.Peer) == 0, "clean-peer-kept-connected")
		vpAssert(state.Count() == 1, "clean-peer-kept")
	}

	// gate 2: outboundPeerConnected
	if doBan {
		s.connManager = &connmgr.ConnManager{}
		req := &connmgr.ConnReq{Addr: vpAddr(seenAs), Permanent: vpRange("permanent", 0, 1) == 1}
		before := vpCalls("connmgr.Remove") + vpCalls("connmgr.Disconnect")
		s.outboundPeerConnected(req, nil)
		after := vpCalls("connmgr.Remove") + vpCalls("connmgr.Disconnect")
		vpAssert(after == before+1, "banned-outbound-connection-dropped")
	}
}

// vpSlowBanStore lets the other goroutines run (to their next blocking
// point) before the ban record is written: a ban write that waits for the
// database.
type vpSlowBanStore struct {
	banman.Store
	before func()
}

func (w *vpSlowBanStore) BanIPNet(n *net.IPNet, r banman.Reason, d time.Duration) error {
	w.before()
	return w.Store.BanIPNet(n, r, d)
}

// VerifH_C13_banPeerOrder: BanPeer on a connected peer, with the peer
// handler answering queries concurrently and a ban write that takes its
// time: the peer must not be dropped before the ban is on record
// (otherwise a reconnect inside that window is accepted and the client
// keeps a connection to a banned address); afterwards it is banned with
// the given reason and disconnected.
func VerifH_C13_banPeerOrder() {
	s := vpChainService()
	s.query = make(chan interface{})
	addr := vpAddrs[vpRange("addr", 0, len(vpAddrs)-1)]
	state := &peerState{
		outboundPeers:   make(map[int32]*ServerPeer),
		persistentPeers: make(map[int32]*ServerPeer),
		outboundGroups:  make(map[string]int),
	}
	sp := &ServerPeer{Peer: &peer.Peer{}, server: s}
	vpPeerSet(sp.Peer, "Addr", addr)
	vpPeerSet(sp.Peer, "ID", int32(3))
	// the misbehaving peer may have dropped its connection before its
	// misbehaviour is judged (a queued response): the ban must be recorded all the same
	gone := vpParam("departed", 1) == 1 && vpRange("peerAlreadyGone", 0, 1) == 1
	if !gone {
		// an ordinary outbound peer or a persistent one (ConnectPeers / AddPeers)
		if vpRange("persistentPeer", 0, 1) == 1 {
			state.persistentPeers[3] = sp
			vpReach("persistent-peer")
		} else {
			state.outboundPeers[3] = sp
		}
	}
	quit := make(chan struct{})
	go func() {
		for {
			select {
			case q := <-s.query:
				s.handleQuery(state, q)
			case <-quit:
				return
			}
		}
	}()
	droppedBeforeBan := false
	s.banStore = &vpSlowBanStore{Store: s.banStore, before: func() {
		vpQuiesce()
		if vpPeerDisconnects(sp.Peer) > 0 {
			droppedBeforeBan = true
		}
	}}
	err := s.BanPeer(addr, banman.InvalidFilterHeader)
	vpQuiesce()
	vpAssert(err == nil, "ban-peer-ok")
	vpAssert(!droppedBeforeBan, "peer-not-dropped-before-its-ban-is-on-record")
	vpAssert(s.IsBanned(addr), "banned-after-ban-peer")
	if gone {
		vpReach("departed-peer-banned")
	} else {
		vpReach("connected-peer-banned")
		vpAssert(vpPeerDisconnects(sp.Peer) > 0, "banned-peer-disconnected")
	}
	ipNet, _ := banman.ParseIPNet(addr, nil)
	st, err2 := s.banStore.Status(ipNet)
	vpAssert(err2 == nil && st.Banned && st.Reason == banman.InvalidFilterHeader, "ban-recorded-with-its-reason")
	close(quit)
}
