package neutrino

// C03 (cfHandler) — the real cfHandler goroutine: its waiting logic, the
// cache of served filter-header checkpoint lists it keeps across passes
// (minCheckpointHeight), getCheckpts, the capping of served lists at the
// block-header tip, resolveConflict, getCheckpointedCFHeaders and - once
// the block headers are current - the hand-over to the at-tip sync
// (getUncheckpointedCFHeaders), with the checkpoint interval shrunk from
// 1000 to 2 blocks (source transform).  The block-header chain grows
// between two passes of the handler.  An honest peer answers everything
// truthfully; a second peer answers checkpoint queries truthfully, not at
// all, or with a list that is truthful as far as it can be checked but
// carries surplus entries for blocks that do not exist yet, and later
// serves filter headers that hash-chain to those surplus entries.  What
// the client commits must be the true filter-header chain, in step with
// the block-header chain, and the honest peer must never be banned.

import (
	"github.com/btcsuite/btcd/chaincfg/v2"
	"github.com/btcsuite/btcd/chainhash/v2"
	"github.com/btcsuite/btcd/wire/v2"
	"github.com/lightninglabs/neutrino/blockntfns"
	"github.com/lightninglabs/neutrino/query"
)

type vpCFHWorld struct {
	e       *vpBMEnv
	fh      []chainhash.Hash // true filter hashes by height
	liarFh  []chainhash.Hash // the liar's filter hashes by height
	liarHdr []chainhash.Hash // the liar's filter-header chain (true up to liarFrom-1)
	// liarFrom: first height at which the liar's chain departs from the truth (0: it never served a surplus list)
	liarFrom    int
	failed      bool
	liarServed  bool
	cpRounds    int
	tipRounds   int
	dispatchers int
	tipReads    int
}

// vpCountingFS: the filter-header store as the handler sees it; a handler
// that keeps going round without ever waiting (every pass reads the tip)
// is parked after 200 reads so that the path ends (recorded as a note: a
// busy loop is not a C03 matter).
type vpCountingFS struct {
	*vpFilterStore
	w *vpCFHWorld
}

func (c *vpCountingFS) ChainTip() (*chainhash.Hash, uint32, error) {
	c.w.tipReads++
	if c.w.tipReads > 200 {
		vpNote("cfh:handler-spins-without-waiting")
		select {}
	}
	return c.vpFilterStore.ChainTip()
}

func (w *vpCFHWorld) heightOf(h chainhash.Hash) int {
	for i := range w.e.chain {
		if w.e.chain[i].BlockHash() == h {
			return i
		}
	}
	return -1
}

// Query: the checkpointed cfheaders batch.  For every request the liar (if
// it has a chain of its own covering the range) may answer first; the
// honest peer answers truthfully; a request nobody can finish fails the batch.
func (w *vpCFHWorld) Query(reqs []*query.Request, _ ...query.QueryOption) chan error {
	w.dispatchers++
	errChan := make(chan error, 1)
	for _, r := range reqs {
		q, ok := r.Req.(*wire.MsgGetCFHeaders)
		if !ok {
			vpAssert(false, "cfh:requests-are-getcfheaders")
			continue
		}
		stopH := w.heightOf(q.StopHash)
		start := int(q.StartHeight)
		if stopH < start || start < 1 {
			vpAssert(false, "cfh:request-range-is-on-the-chain")
			continue
		}
		mk := func(hashes, hdrs []chainhash.Hash) *wire.MsgCFHeaders {
			resp := wire.NewMsgCFHeaders()
			resp.FilterType = q.FilterType
			resp.StopHash = q.StopHash
			resp.PrevFilterHeader = hdrs[start-1]
			for h := start; h <= stopH; h++ {
				fh := hashes[h]
				_ = resp.AddCFHash(&fh)
			}
			return resp
		}
		finished := false
		if w.liarFrom > 0 && stopH >= w.liarFrom {
			p := r.HandleResp(r.Req, mk(w.liarFh, w.liarHdr), vpLiarAddr)
			w.liarServed = true
			finished = p.Finished
			if finished {
				vpReach("a-range-chaining-to-a-surplus-checkpoint-was-accepted")
			}
		}
		if !finished {
			p := r.HandleResp(r.Req, mk(w.fh, w.e.filters), vpHonestAddr)
			finished = p.Finished
		}
		if !finished {
			w.failed = true
			errChan <- query.ErrQueryTimeout
			return errChan
		}
	}
	errChan <- nil
	return errChan
}

// VerifH_C03_cfHandler: see the file comment.
func VerifH_C03_cfHandler() {
	if maxCFCheckptsPerQuery != 2 || vpCFCheckptInterval != 2 {
		vpAssert(false, "cfh:checkpoint-interval-overlay-in-place")
		return
	}
	const n = 6
	vpOpt("maporder", 2)
	recent := vpRange("chainIsCurrent", 0, 1) == 1
	bt0 := vpRange("blockTipAtStart", 2, 4)
	w := &vpCFHWorld{fh: make([]chainhash.Hash, n+1)}
	gf := chainhash.DoubleHashH([]byte{0x0f})
	opt := vpEnvOpt{genesisFilter: &gf, filterFor: func(h int, prev chainhash.Hash) chainhash.Hash {
		w.fh[h] = chainhash.Hash{0xa0, byte(h)}
		return vpFilterHeaderAfter(w.fh[h], prev)
	}}
	if recent {
		opt.timeBase = vpNowUnix - 2*3600
	}
	// the network may have a hard-coded block checkpoint at height 4: below it
	// the client is not current, and filter checkpoints are asked for up to
	// the checkpoint block rather than the block tip
	cp := 4 * vpRange("blockCheckpointAtHeight4", 0, 1)
	if cp > 0 {
		opt.prep = func(e *vpBMEnv, p *chaincfg.Params) {
			h := e.chain[cp].BlockHash()
			p.Checkpoints = append(p.Checkpoints, chaincfg.Checkpoint{Height: int32(cp), Hash: &h})
		}
	}
	e := vpNewBMEnvOpt(n, bt0, 0, vpRegtestParams(), opt)
	if e == nil {
		return
	}
	w.e = e
	e.bm.cfg.QueryDispatcher = w
	e.bm.cfg.RegFilterHeaders = &vpCountingFS{vpFilterStore: e.fs, w: w}
	honest, liar := vpMkServerPeer(vpHonestAddr), vpMkServerPeer(vpLiarAddr)

	e.bm.cfg.queryAllPeers = func(queryMsg wire.Message,
		checkResponse func(sp *ServerPeer, resp wire.Message, quit chan<- struct{}, peerQuit chan<- struct{}),
		options ...QueryOption) {

		quit := make(chan struct{})
		switch q := queryMsg.(type) {
		case *wire.MsgGetCFCheckpt:
			w.cpRounds++
			stopH := w.heightOf(q.StopHash)
			if stopH < 0 {
				return
			}
			truthful := func() *wire.MsgCFCheckpt {
				resp := wire.NewMsgCFCheckpt(q.FilterType, &q.StopHash, n)
				for h := 2; h <= stopH; h += 2 {
					c := e.filters[h]
					_ = resp.AddCFHeader(&c)
				}
				return resp
			}
			checkResponse(honest, truthful(), quit, make(chan struct{}))
			kinds := 1 // 0 truthful, 1 silent
			if w.cpRounds == 1 && stopH+2 <= n {
				kinds = 2 // 2: truthful as far as it can be checked, plus surplus entries up to height n
			}
			switch vpRange("secondPeerCheckpointAnswer", 0, kinds) {
			case 0:
				checkResponse(liar, truthful(), quit, make(chan struct{}))
			case 2:
				vpReach("surplus-checkpoints-served")
				// the liar's chain: true up to the last checkpoint at or below the
				// stop block, its own filter hashes from there on
				w.liarFrom = 2*(stopH/2) + 1
				w.liarFh = append([]chainhash.Hash(nil), w.fh...)
				w.liarHdr = append([]chainhash.Hash(nil), e.filters...)
				for h := w.liarFrom; h <= n; h++ {
					w.liarFh[h] = chainhash.Hash{0xee, byte(h)}
					w.liarHdr[h] = vpFilterHeaderAfter(w.liarFh[h], w.liarHdr[h-1])
				}
				resp := truthful()
				for h := w.liarFrom + 1; h <= n; h += 2 {
					c := w.liarHdr[h]
					_ = resp.AddCFHeader(&c)
				}
				checkResponse(liar, resp, quit, make(chan struct{}))
			}
		case *wire.MsgGetCFHeaders:
			// the at-tip sync (and any follow-up round): both peers answer truthfully
			w.tipRounds++
			stopH := w.heightOf(q.StopHash)
			start := int(q.StartHeight)
			if stopH < start || start < 1 {
				return
			}
			for _, sp := range []*ServerPeer{honest, liar} {
				resp := wire.NewMsgCFHeaders()
				resp.FilterType = q.FilterType
				resp.StopHash = q.StopHash
				resp.PrevFilterHeader = e.filters[start-1]
				for h := start; h <= stopH; h++ {
					fh := w.fh[h]
					_ = resp.AddCFHash(&fh)
				}
				checkResponse(sp, resp, quit, make(chan struct{}))
			}
		}
	}

	check := func(tag string) {
		vpAssert(!e.ftAboveBt, tag+"filter-chain-never-ahead-of-block-chain")
		for h := 0; h < len(e.fs.hashes) && h <= n; h++ {
			vpAssert(e.fs.hashes[h] == e.filters[h], tag+"committed-filter-header-is-the-true-one-at-its-height")
		}
		for _, b := range e.bans {
			vpAssert(b.addr != vpHonestAddr, tag+"honest-peer-not-banned")
		}
	}

	go e.bm.cfHandler()
	vpQuiesce()
	check("cfh:pass1:")
	ft1 := len(e.fs.hashes) - 1
	// (how far a pass gets is not a C03 matter: progress is recorded through
	// the reach labels the check insists on, a different extent is a note)
	synced1 := recent && bt0 > cp
	if !w.failed {
		if (synced1 && ft1 == bt0) || (!synced1 && ft1 == 2*(bt0/2)) {
			vpReach("first-pass-completed")
			if cp > bt0 {
				vpReach("filter-checkpoints-asked-for-up-to-the-block-checkpoint")
			}
		} else {
			vpNote("cfh:first-pass-ends-elsewhere")
		}
	}

	// ---- the block-header chain grows (what handleHeadersMsg does once the new headers are stored) ----
	grow := vpRange("chainGrowsBy", 0, n-bt0)
	bt1 := bt0 + grow
	if grow > 0 {
		e.bs.hdrs = append(e.bs.hdrs, e.chain[bt0+1:bt1+1]...)
		th := e.chain[bt1].BlockHash()
		e.bm.newHeadersMtx.Lock()
		e.bm.headerTip = uint32(bt1)
		e.bm.headerTipHash = th
		e.bm.newHeadersMtx.Unlock()
		e.bm.newHeadersSignal.Broadcast()
		vpQuiesce()
		check("cfh:pass2:")
		ft2 := len(e.fs.hashes) - 1
		vpAssert(ft2 >= ft1, "cfh:nothing-lost")
		if !w.failed {
			synced2 := recent && bt1 > cp
			switch {
			case synced2 && ft2 == bt1:
				vpReach("caught-up-at-tip-after-growth")
			case !synced2 && ft1+2 <= bt1 && ft2 == 2*(bt1/2):
				vpReach("second-checkpointed-pass-completed")
			case synced2 || ft1+2 <= bt1:
				vpNote("cfh:second-pass-ends-elsewhere")
			}
		}
	}

	// ---- events: one connected event per committed block, in order, after its commitment ----
	want := 1
	for _, ev := range e.events {
		c, ok := ev.ntfn.(*blockntfns.Connected)
		if !ok {
			vpAssert(false, "cfh:only-connected-events")
			continue
		}
		vpAssert(int(c.Height()) == want && c.Header() == e.chain[want], "cfh:connected-events-in-height-order-for-the-committed-blocks")
		vpAssert(ev.ft >= int(c.Height()), "cfh:announced-only-after-the-commitment-is-stored")
		want++
	}
	vpAssert(want == len(e.fs.hashes), "cfh:one-connected-event-per-committed-block")

	// ---- shutdown: the handler returns ----
	close(e.bm.quit)
	e.bm.newHeadersSignal.Broadcast()
	vpQuiesce()
}
