package query

// C12 — each query batch gets exactly one verdict; success means all
// answered.  The real peerWorkManager (workDispatcher), real workers
// (worker.Run), work queue and peer ranking run under the engine's
// scheduler with scripted peers, handlers, timers and batch options.

import (
	"container/heap"
	"time"

	"github.com/btcsuite/btcd/wire/v2"
)

func pushJob(q *workQueue, j *queryJob) { heap.Push(q, j) }
func popJob(q *workQueue) *queryJob     { return heap.Pop(q).(*queryJob) }

type vpPeer struct {
	addr       string
	msgs       chan wire.Message
	disconnect chan struct{}
	sent       int
	gone       bool
}

func (p *vpPeer) QueueMessageWithEncoding(msg wire.Message, doneChan chan<- struct{}, enc wire.MessageEncoding) {
	p.sent++
}
func (p *vpPeer) SubscribeRecvMsg() (<-chan wire.Message, func()) { return p.msgs, func() {} }
func (p *vpPeer) Addr() string                                    { return p.addr }
func (p *vpPeer) OnDisconnect() <-chan struct{}                   { return p.disconnect }

// vpForceFinish: in the drain phase every handler is satisfied by the
// next message.
var vpForceFinish bool

type vpReq struct {
	batch    int
	finished int // times its handler reported Finished
	calls    int
}

type vpBatch struct {
	errChan chan error
	cancel  chan struct{}
	reqs    []*vpReq
	verdict error
	got     int
}

// VerifH_C12_dispatcher: see the file comment.
func VerifH_C12_dispatcher() {
	vpOpt("clock", 1)
	vpForceFinish = false
	npeers := vpParam("peers", 2)
	peerChan := make(chan Peer, 4)
	wm := NewWorkManager(&Config{
		ConnectedPeers: func() (<-chan Peer, func(), error) { return peerChan, func() {}, nil },
		NewWorker:      NewWorker,
		Ranking:        NewPeerRanking(),
	})
	wm.Start()
	var peers []*vpPeer
	addPeer := func() {
		p := &vpPeer{addr: string(rune('a' + len(peers))), msgs: make(chan wire.Message, 8), disconnect: make(chan struct{})}
		peers = append(peers, p)
		peerChan <- p
		vpQuiesce()
	}
	addPeer()

	var batches []*vpBatch
	submit := func() {
		b := &vpBatch{cancel: make(chan struct{})}
		n := vpRange("requests", 1, vpParam("maxrequests", 2))
		var reqs []*Request
		for k := 0; k < n; k++ {
			r := &vpReq{batch: len(batches)}
			b.reqs = append(b.reqs, r)
			reqs = append(reqs, &Request{
				Req: wire.NewMsgPing(uint64(len(batches)*10 + k)),
				HandleResp: func(req, resp wire.Message, peer string) Progress {
					r.calls++
					if vpForceFinish {
						r.finished++
						return Progress{Finished: true, Progressed: true}
					}
					switch vpRange("progress", 0, 2) {
					case 1:
						return Progress{Progressed: true}
					case 2:
						r.finished++
						return Progress{Finished: true, Progressed: true}
					}
					return Progress{}
				},
			})
		}
		opts := []QueryOption{Cancel(b.cancel)}
		switch vpRange("retries", 0, 2) {
		case 0:
			opts = append(opts, NumRetries(1))
		case 1:
			opts = append(opts, NumRetries(2))
		case 2:
			opts = append(opts, NoRetryMax())
		}
		if vpParam("timeouts", 0) == 1 {
			switch vpRange("batchTimeout", 0, 2) {
			case 1:
				opts = append(opts, Timeout(time.Second))
			case 2:
				opts = append(opts, Timeout(0), ProgressTimeout(time.Second))
			default:
				opts = append(opts, Timeout(0))
			}
		} else {
			opts = append(opts, Timeout(0)) // no hard timeout
		}
		b.errChan = wm.Query(reqs, opts...)
		batches = append(batches, b)
		vpQuiesce()
	}
	submit()

	vpOpt("timers", vpParam("timers", 0))
	faults := 0
	nev := vpParam("events", 4)
	for ev := 0; ev < nev; ev++ {
		switch vpRange("event", 0, 4) {
		case 0: // some peer message arrives at a peer
			p := peers[vpRange("peer", 0, len(peers)-1)]
			if p.gone || len(p.msgs) == cap(p.msgs) {
				continue
			}
			p.msgs <- wire.NewMsgPong(1)
			vpReach("response")
		case 1: // a peer disconnects
			p := peers[vpRange("peer", 0, len(peers)-1)]
			if p.gone {
				continue
			}
			p.gone = true
			close(p.disconnect)
			faults++
			vpReach("disconnect")
		case 2: // the caller cancels a batch
			b := batches[vpRange("batch", 0, len(batches)-1)]
			select {
			case <-b.cancel:
				continue
			default:
			}
			close(b.cancel)
			faults++
			vpReach("cancel")
		case 3: // another peer connects
			if len(peers) >= npeers {
				continue
			}
			addPeer()
			vpReach("peer-connected")
		case 4: // another batch is submitted
			if len(batches) >= vpParam("batches", 2) {
				continue
			}
			submit()
			vpReach("second-batch")
		}
		vpQuiesce()
	}
	vpQuiesce()
	// drain phase: from now on peers answer every request to its handler's
	// satisfaction; with a live peer every pending batch must complete
	vpForceFinish = true
	live := 0
	for _, p := range peers {
		if !p.gone {
			live++
		}
	}
	total := 0
	for _, b := range batches {
		total += len(b.reqs)
	}
	for round := 0; round < total+2; round++ {
		for _, p := range peers {
			if !p.gone && len(p.msgs) < cap(p.msgs) {
				p.msgs <- wire.NewMsgPong(2)
			}
		}
		vpQuiesce()
	}
	// collect verdicts that are already there, then shut down
	collect := func() {
		for _, b := range batches {
			for {
				select {
				case err := <-b.errChan:
					b.got++
					b.verdict = err
					continue
				default:
				}
				break
			}
		}
	}
	collect()
	early := make([]int, len(batches))
	for i, b := range batches {
		early[i] = b.got
		if live > 0 {
			vpReach("drained-with-a-live-peer")
			vpAssert(b.got == 1, "with-a-responsive-peer-every-batch-reaches-a-verdict-before-shutdown")
		}
	}
	wm.Stop() // must return: a finished/cancelled/timed-out batch never blocks shutdown
	vpReach("stopped")
	collect()
	for i, b := range batches {
		vpAssert(b.got == 1, "every-batch-gets-exactly-one-verdict")
		allDone := true
		for _, r := range b.reqs {
			if r.finished == 0 {
				allDone = false
			}
			vpAssert(r.finished <= 1, "a-request-is-not-answered-twice")
		}
		if b.got == 1 && b.verdict == nil {
			vpReach("success-verdict")
			vpAssert(allDone, "success-only-if-every-request-was-answered")
		}
		if allDone && early[i] == 1 && faults == 0 && vpParam("timers", 0) == 0 {
			vpReach("all-answered")
			vpAssert(b.verdict == nil, "all-answered-batch-reports-success")
		}
		if b.got == 1 && b.verdict != nil {
			vpReach("error-verdict")
		}
	}
}

// VerifH_C12_kernels: the work queue pops the lowest index first and the
// peer ranking keeps better-behaved peers first.
func VerifH_C12_kernels() {
	q := &workQueue{}
	n := vpRange("n", 1, 4)
	var idx []uint64
	for i := 0; i < n; i++ {
		v := uint64(vpU8("index"))
		idx = append(idx, v)
		pushJob(q, &queryJob{index: v})
	}
	prev := uint64(0)
	for i := 0; i < n; i++ {
		j := popJob(q)
		vpAssert(i == 0 || j.Index() >= prev, "work-queue-pops-lowest-index-first")
		prev = j.Index()
	}
	vpAssert(q.Len() == 0, "work-queue-empty-after-popping-everything")
}

// VerifH_C12_ranking: re-issued requests prefer peers with a better record.
func VerifH_C12_ranking() {
	// the ranking against each peer's record: events are the ones the
	// dispatcher produces (a connection or re-connection under an address, a
	// successful query, a failed query, a disconnect reported by a worker of
	// that address); the record is kept independently: 4 when first seen, +1
	// per failure up to 8, -1 per success down to 0, back to 4 on a reported
	// disconnect - and a peer that is known stays known
	rk := NewPeerRanking()
	rk.AddPeer("a")
	rk.AddPeer("b")
	rec := map[string]int{"a": 4, "b": 4}
	for k := 0; k < vpParam("rankops", 4); k++ {
		who := []string{"a", "b"}[vpRange("who", 0, 1)]
		switch vpRange("what", 0, 3) {
		case 0:
			rk.Reward(who)
			if rec[who] > 0 {
				rec[who]--
			}
		case 1:
			rk.Punish(who)
			if rec[who] < 8 {
				rec[who]++
			}
		case 2:
			rk.AddPeer(who) // the peer connects again under the same address
		case 3:
			rk.ResetRanking(who)
			rec[who] = 4
			vpReach("disconnect-reported")
		}
	}
	for _, order := range [][]string{{"b", "a"}, {"a", "b"}} {
		rk.Order(order)
		if rec["a"] != rec["b"] {
			better := "a"
			if rec["b"] < rec["a"] {
				better = "b"
			}
			vpReach("records-differ")
			vpAssert(order[0] == better, "ranking-orders-the-peer-with-the-better-record-first")
		}
	}
}

// VerifH_C12_timedWorker: the real worker.Run under virtual time (timers
// with concrete durations fire in deadline order, time only passes when
// every goroutine is blocked).  A request with a 10 s timeout is handed to
// a peer that sends messages at chosen instants, each either unrelated to
// the request (no progress), partial progress, or the answer.  The worker
// must report the request as timed out exactly 10 s after its last
// progress - not earlier, and no later however chatty the peer is - so
// that the dispatcher can re-issue it.
func VerifH_C12_timedWorker() {
	vpOpt("clock", 1)
	vpOpt("timed", 1)
	vpOpt("timers", 8)
	const T = 10 * time.Second
	p := &vpPeer{addr: "a", msgs: make(chan wire.Message, 8), disconnect: make(chan struct{})}
	w := NewWorker(p).(*worker)
	results := make(chan *jobResult, 4)
	quit := make(chan struct{})
	go w.Run(results, quit)

	kinds := []int{}
	job := &queryJob{index: 1, timeout: T, cancelChan: make(chan struct{}), internalCancelChan: make(chan struct{}),
		Request: &Request{Req: wire.NewMsgPing(1), HandleResp: func(req, resp wire.Message, addr string) Progress {
			k := kinds[0]
			kinds = kinds[1:]
			switch k {
			case 1:
				return Progress{Progressed: true}
			case 2:
				return Progress{Finished: true, Progressed: true}
			}
			return Progress{}
		}}}
	w.NewJob() <- job
	vpQuiesce()

	// messages arrive 4 s or 7 s apart
	now := time.Duration(0)
	lastProgress := time.Duration(0)
	n := vpRange("messages", 0, vpParam("maxmsgs", 3))
	answered := false
	var got *jobResult
	poll := func() {
		select {
		case r := <-results:
			got = r
		default:
		}
	}
	for k := 0; k < n && got == nil; k++ {
		gap := []time.Duration{4 * time.Second, 7 * time.Second}[vpRange("gap", 0, 1)]
		// the deadline may pass while we wait for the next message
		if now+gap > lastProgress+T {
			time.Sleep(lastProgress + T - now + time.Millisecond)
			now = lastProgress + T + time.Millisecond
			vpQuiesce()
			poll()
			vpReach("deadline-passed-between-messages")
			vpAssert(got != nil && got.err == ErrQueryTimeout, "timeout-reported-at-the-deadline-despite-earlier-unrelated-messages")
			break
		}
		time.Sleep(gap)
		now += gap
		poll()
		if got != nil && got.err != nil {
			vpNote("early verdict: " + got.err.Error())
		}
		vpAssert(got == nil, "no-verdict-before-the-deadline")
		kind := vpRange("msgKind", 0, 2)
		kinds = append(kinds, kind)
		p.msgs <- wire.NewMsgPong(uint64(k))
		vpQuiesce()
		switch kind {
		case 1:
			lastProgress = now
			vpReach("progress")
		case 2:
			answered = true
		}
		if answered {
			poll()
			vpReach("answered")
			vpAssert(got != nil && got.err == nil, "answer-reported-as-success")
			break
		}
	}
	if got == nil {
		// silence from now on: the verdict comes exactly at the deadline
		if lastProgress+T-now > time.Second {
			time.Sleep(lastProgress + T - now - time.Second)
			vpQuiesce()
			poll()
			vpAssert(got == nil, "no-verdict-before-the-deadline")
			time.Sleep(time.Second + time.Millisecond)
		} else {
			time.Sleep(lastProgress + T - now + time.Millisecond)
		}
		vpQuiesce()
		poll()
		vpReach("deadline-passed-in-silence")
		vpAssert(got != nil && got.err == ErrQueryTimeout, "timeout-reported-at-the-deadline")
	}
	close(quit)
}

// VerifH_C12_timedSmoke: the virtual-time model itself.
func VerifH_C12_timedSmoke() {
	vpOpt("clock", 1)
	vpOpt("timed", 1)
	vpOpt("timers", 4)
	t := time.NewTimer(10 * time.Second)
	time.Sleep(4 * time.Second)
	select {
	case <-t.C:
		vpAssert(false, "smoke:timer-not-before-its-deadline")
	default:
		vpReach("smoke-early")
	}
	time.Sleep(7 * time.Second)
	select {
	case <-t.C:
		vpReach("smoke-fired")
	default:
		vpAssert(false, "smoke:timer-fired-by-its-deadline")
	}
}

// VerifH_C12_timedBatch: the real dispatcher and a real worker in virtual
// time.  A batch with an idle (progress) timeout of 10 s and a hard
// timeout of one hour is handed to one peer that answers some of its
// requests 4 s or 7 s apart and then falls silent.  The batch must get its
// single verdict exactly 10 s after its last success (success at once if
// everything was answered), its in-flight request must be cancelled, a
// later batch must still be served and Stop must return.
func VerifH_C12_timedBatch() {
	vpOpt("clock", 1)
	vpOpt("timed", 1)
	vpOpt("timers", 64)
	vpForceFinish = false
	const idle = 10 * time.Second
	peerChan := make(chan Peer, 4)
	wm := NewWorkManager(&Config{
		ConnectedPeers: func() (<-chan Peer, func(), error) { return peerChan, func() {}, nil },
		NewWorker:      NewWorker,
		Ranking:        NewPeerRanking(),
	})
	wm.Start()
	p := &vpPeer{addr: "a", msgs: make(chan wire.Message, 8), disconnect: make(chan struct{})}
	peerChan <- p
	vpQuiesce()

	nreq := vpRange("requests", 2, vpParam("maxrequests", 3))
	finished := 0
	mk := func(n int, tag uint64) []*Request {
		var reqs []*Request
		for k := 0; k < n; k++ {
			reqs = append(reqs, &Request{Req: wire.NewMsgPing(tag + uint64(k)),
				HandleResp: func(req, resp wire.Message, peer string) Progress {
					finished++
					return Progress{Finished: true, Progressed: true}
				}})
		}
		return reqs
	}
	errChan := wm.Query(mk(nreq, 0), Timeout(time.Hour), ProgressTimeout(idle), NoRetryMax())
	vpQuiesce()
	var verdict error
	got := 0
	poll := func() {
		for {
			select {
			case err := <-errChan:
				got++
				verdict = err
				continue
			default:
			}
			return
		}
	}
	now, last := time.Duration(0), time.Duration(0)
	answers := vpRange("answersBeforeSilence", 0, nreq)
	for k := 0; k < answers; k++ {
		gap := []time.Duration{4 * time.Second, 7 * time.Second}[vpRange("gap", 0, 1)]
		time.Sleep(gap)
		now += gap
		vpQuiesce()
		poll()
		if got != 0 && verdict != nil {
			vpAssert(false, "dbg1:"+verdict.Error())
		}
		vpAssert(got == 0, "no-verdict-while-the-peer-keeps-answering-in-time")
		p.msgs <- wire.NewMsgPong(uint64(k))
		vpQuiesce()
		last = now
		vpAssert(finished == k+1, "each-message-answers-one-outstanding-request")
	}
	if answers == nreq {
		poll()
		vpReach("all-answered-in-time")
		vpAssert(got == 1 && verdict == nil, "all-answered-batch-reports-success-at-once")
	} else {
		if answers > 0 {
			vpReach("progress-then-silence")
		} else {
			vpReach("silence-from-the-start")
		}
		time.Sleep(last + idle - now - time.Second)
		vpQuiesce()
		poll()
		vpAssert(got == 0, "no-idle-verdict-before-the-deadline")
		time.Sleep(time.Second + time.Millisecond)
		vpQuiesce()
		poll()
		vpAssert(got == 1 && verdict == ErrQueryTimeout, "idle-timeout-verdict-exactly-one-timeout-after-the-last-success")
	}
	// a later batch is served by the same peer
	before := finished
	errChan2 := wm.Query(mk(1, 100), Timeout(time.Hour), NoRetryMax())
	vpQuiesce()
	// the worker may still be unwinding the cancelled request: the peer answers for up to a minute
	var v2 error
	got2 := 0
	for round := 0; round < 12 && got2 == 0; round++ {
		if len(p.msgs) < cap(p.msgs) {
			p.msgs <- wire.NewMsgPong(200)
		}
		vpQuiesce()
		select {
		case v2 = <-errChan2:
			got2++
		default:
			time.Sleep(5 * time.Second)
		}
	}
	vpAssert(got2 == 1 && v2 == nil, "a-later-batch-is-served-after-the-timed-out-one")
	if answers < nreq {
		vpAssert(finished == before+1, "requests-of-the-timed-out-batch-are-not-answered-afterwards")
	}
	wm.Stop()
	vpReach("stopped")
	poll()
	vpAssert(got == 1, "every-batch-gets-exactly-one-verdict")
}

// VerifH_C12_timedHardTimeout: a batch with a hard timeout of 20 s, no idle
// timeout and no retry limit, handed to a peer that never answers: every
// result the dispatcher sees is a failed request (the per-request timeouts
// 2 s, 4 s, 8 s, 16 s ... of the real worker, in virtual time).  The batch
// must get its single timeout verdict when the first result after the
// deadline is handled (t = 30 s), not run on.
func VerifH_C12_timedHardTimeout() {
	vpOpt("clock", 1)
	vpOpt("timed", 1)
	vpOpt("timers", 64)
	vpForceFinish = false
	peerChan := make(chan Peer, 4)
	wm := NewWorkManager(&Config{
		ConnectedPeers: func() (<-chan Peer, func(), error) { return peerChan, func() {}, nil },
		NewWorker:      NewWorker,
		Ranking:        NewPeerRanking(),
	})
	wm.Start()
	p := &vpPeer{addr: "a", msgs: make(chan wire.Message, 8), disconnect: make(chan struct{})}
	peerChan <- p
	vpQuiesce()
	nreq := vpRange("requests", 1, 2)
	var reqs []*Request
	for k := 0; k < nreq; k++ {
		reqs = append(reqs, &Request{Req: wire.NewMsgPing(uint64(k)),
			HandleResp: func(req, resp wire.Message, peer string) Progress { return Progress{} }})
	}
	opts := []QueryOption{Timeout(20 * time.Second)}
	if vpRange("retryLimit", 0, 1) == 0 {
		opts = append(opts, NoRetryMax())
	} else {
		opts = append(opts, NumRetries(50))
	}
	errChan := wm.Query(reqs, opts...)
	vpQuiesce()
	got := 0
	var verdict error
	poll := func() {
		for {
			select {
			case err := <-errChan:
				got++
				verdict = err
				continue
			default:
			}
			return
		}
	}
	time.Sleep(19 * time.Second)
	vpQuiesce()
	poll()
	vpAssert(got == 0, "no-hard-timeout-verdict-before-the-deadline")
	// request timeouts: 2, 6, 14, 30 s (one request) - the first result after the deadline comes at 30 s
	time.Sleep(12 * time.Second)
	vpQuiesce()
	poll()
	vpReach("deadline-passed-with-only-failed-requests")
	vpAssert(got == 1 && verdict == ErrQueryTimeout, "hard-timeout-verdict-when-a-failed-request-is-handled-after-the-deadline")
	wm.Stop()
	poll()
	vpAssert(got == 1, "every-batch-gets-exactly-one-verdict")
}

// VerifH_C12_stopDuringHandler: the real dispatcher and worker; Stop is
// called while a request's response handler is still running and the
// handler returns only after the dispatcher has gone.  Whatever the handler
// then reports (finished, progress only, nothing), Stop must return - the
// worker may not wait for somebody to take its result - and the batch gets
// at most one verdict.
func VerifH_C12_stopDuringHandler() {
	vpOpt("clock", 1)
	vpOpt("timed", 1)
	vpOpt("timers", 16)
	vpForceFinish = false
	peerChan := make(chan Peer, 4)
	wm := NewWorkManager(&Config{
		ConnectedPeers: func() (<-chan Peer, func(), error) { return peerChan, func() {}, nil },
		NewWorker:      NewWorker,
		Ranking:        NewPeerRanking(),
	})
	wm.Start()
	p := &vpPeer{addr: "a", msgs: make(chan wire.Message, 8), disconnect: make(chan struct{})}
	peerChan <- p
	vpQuiesce()

	stopDone := make(chan struct{})
	stopStarted := false
	kind := vpRange("handlerVerdict", 0, 2)
	req := &Request{Req: wire.NewMsgPing(1), HandleResp: func(req, resp wire.Message, peer string) Progress {
		if !stopStarted {
			stopStarted = true
			go func() {
				wm.Stop()
				close(stopDone)
			}()
			vpQuiesce() // the dispatcher has seen the shutdown and gone
			vpReach("stop-called-inside-a-response-handler")
		}
		return Progress{Finished: kind == 0, Progressed: kind <= 1}
	}}
	errChan := wm.Query([]*Request{req}, Timeout(time.Hour), NoRetryMax())
	vpQuiesce()
	p.msgs <- wire.NewMsgPong(1)
	vpQuiesce()
	if !stopStarted {
		return
	}
	<-stopDone // a Stop that never returns shows up as a deadlock
	vpReach("stopped")
	got := 0
	for {
		select {
		case <-errChan:
			got++
			continue
		default:
		}
		break
	}
	vpAssert(got <= 1, "every-batch-gets-at-most-one-verdict-at-shutdown")
}
