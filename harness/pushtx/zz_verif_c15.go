package pushtx

// C15 — accepted transactions are rebroadcast in dependency order until
// confirmed; neither Stop nor MarkAsConfirmed blocks the caller.  The real
// Broadcaster (handler goroutine, rebroadcast goroutines, DependencySort)
// runs under the engine's scheduler with a recording Broadcast callback.

import (
	"errors"
	"time"

	"github.com/btcsuite/btcd/chainhash/v2"
	"github.com/btcsuite/btcd/wire/v2"
	"github.com/lightninglabs/neutrino/blockntfns"
)

type vpCall struct {
	tx      chainhash.Hash
	initial bool // made while a Broadcast() request was being served
	batch   int  // rebroadcast batch number (0 for initial calls)
}

type vpBcastEnv struct {
	b         *Broadcaster
	ntfns     chan blockntfns.BlockNtfn
	calls     []vpCall
	inRequest bool
	batches   int
	// scripted outcome of the next Broadcast callback per tx
	outcome   map[chainhash.Hash]error
	cancelled bool
	// the network answers rebroadcasts of these with "already confirmed"
	confirmedByNet map[chainhash.Hash]bool
	// rebroadcasts of these fail with a plain error (no peer reachable ...)
	failRebroadcast map[chainhash.Hash]bool
	// Stop is called (from another goroutine) while a rebroadcast callback is
	// waiting for its peers
	stopInCallback bool
	stopInRequest  bool
	stopStarted    bool
	stopDone       chan struct{}
	// rebroadcast callbacks wait here while the harness delivers another block
	holding bool
	hold    chan struct{}
}

// vpNativeErr: a failure as a foreign backend words it (not a BroadcastError
// until Config.MapCustomBroadcastError has translated it).
type vpNativeErr struct{ code BroadcastErrorCode }

func (e vpNativeErr) Error() string { return "backend: native failure" }

// VerifH_C15_handler: up to `events` events (broadcast request with
// outcome accepted / already-in-mempool / rejected, block notification,
// confirmation) over a parent, its child and an unrelated transaction.
func VerifH_C15_handler() {
	vpOpt("clock", 1)
	// three transactions: child spends an output of parent
	parent := &wire.MsgTx{Version: 2, LockTime: 1, TxIn: []*wire.TxIn{{PreviousOutPoint: wire.OutPoint{Index: 11}}},
		TxOut: []*wire.TxOut{{Value: 10, PkScript: []byte{0x51}}}}
	child := &wire.MsgTx{Version: 2, LockTime: 2, TxIn: []*wire.TxIn{{PreviousOutPoint: wire.OutPoint{Hash: parent.TxHash(), Index: 0}}},
		TxOut: []*wire.TxOut{{Value: 9, PkScript: []byte{0x52}}}}
	other := &wire.MsgTx{Version: 2, LockTime: 3, TxIn: []*wire.TxIn{{PreviousOutPoint: wire.OutPoint{Index: 12}}},
		TxOut: []*wire.TxOut{{Value: 8, PkScript: []byte{0x53}}}}
	txs := []*wire.MsgTx{parent, child, other}
	hashes := []chainhash.Hash{parent.TxHash(), child.TxHash(), other.TxHash()}

	e := &vpBcastEnv{ntfns: make(chan blockntfns.BlockNtfn), outcome: map[chainhash.Hash]error{}, confirmedByNet: map[chainhash.Hash]bool{}, failRebroadcast: map[chainhash.Hash]bool{}}
	cfg := &Config{
		Broadcast: func(tx *wire.MsgTx) error {
			h := tx.TxHash()
			c := vpCall{tx: h, initial: e.inRequest}
			if !e.inRequest {
				c.batch = e.batches
			}
			e.calls = append(e.calls, c)
			if e.inRequest && e.stopInRequest && !e.stopStarted {
				e.stopStarted = true
				go func() {
					e.b.Stop()
					close(e.stopDone)
				}()
				<-e.b.quit // the shutdown has begun before the peers answer
				vpQuiesce() // ... and the caller has been released
			}
			if !e.inRequest {
				if e.holding {
					<-e.hold
				}
				if e.stopInCallback && !e.stopStarted {
					e.stopStarted = true
					go func() {
						e.b.Stop()
						close(e.stopDone)
					}()
					<-e.b.quit // the shutdown has begun before the peers answer
				}
				if e.confirmedByNet[h] {
					return &BroadcastError{Code: Confirmed, Reason: "already confirmed"}
				}
				if e.failRebroadcast[h] {
					return errors.New("vp: no peer took the transaction")
				}
			}
			return e.outcome[h]
		},
		SubscribeBlocks: func() (*blockntfns.Subscription, error) {
			return &blockntfns.Subscription{Notifications: e.ntfns, Cancel: func() { e.cancelled = true }}, nil
		},
		RebroadcastInterval: time.Minute,
	}
	// a backend other than neutrino's own reports failures in its native
	// vocabulary; the configured mapping turns them into BroadcastErrors
	custom := vpParam("custombackend", 0) == 2 || (vpParam("custombackend", 0) == 1 && vpRange("customBackend", 0, 1) == 1)
	if custom {
		vpReach("custom-backend")
		plain := cfg.Broadcast
		cfg.Broadcast = func(tx *wire.MsgTx) error {
			err := plain(tx)
			if be, ok := err.(*BroadcastError); ok {
				return vpNativeErr{code: be.Code}
			}
			return err
		}
		cfg.MapCustomBroadcastError = func(err error) error {
			if ne, ok := err.(vpNativeErr); ok {
				return &BroadcastError{Code: ne.code, Reason: "mapped"}
			}
			return err
		}
	}
	e.b = NewBroadcaster(cfg)
	if err := e.b.Start(); err != nil {
		vpAssert(false, "start-ok")
		return
	}

	accepted := map[chainhash.Hash]bool{}  // ever accepted (incl. already in mempool)
	confirmed := map[chainhash.Hash]bool{} // reported confirmed
	rejected := map[chainhash.Hash]bool{}
	// checkBatch: the calls made since `before` are exactly one rebroadcast of
	// the pending set (accepted and not confirmed), parents before children
	checkBatch := func(before, batch int) {
		// the batch is exactly accepted \ confirmed, parents before children
		var got []chainhash.Hash
		for _, c := range e.calls[before:] {
			vpAssert(!c.initial && c.batch == batch, "calls-after-a-block-belong-to-its-rebroadcast")
			got = append(got, c.tx)
		}
		want := 0
		for _, h := range hashes {
			pending := accepted[h] && !confirmed[h]
			n := 0
			for _, g := range got {
				if g == h {
					n++
				}
			}
			if pending {
				want++
				vpAssert(n == 1, "pending-tx-is-rebroadcast-once-per-block")
			} else {
				vpAssert(n == 0, "confirmed-rejected-or-unknown-tx-is-not-rebroadcast")
			}
		}
		vpAssert(len(got) == want, "rebroadcast-is-exactly-the-pending-set")
		pi, ci := -1, -1
		for i, g := range got {
			if g == hashes[0] {
				pi = i
			}
			if g == hashes[1] {
				ci = i
			}
		}
		if pi >= 0 && ci >= 0 {
			vpReach("parent-and-child-pending")
			vpAssert(pi < ci, "parent-before-child")
		}
		// what the network reported as confirmed during this batch is no longer pending
		for _, h := range hashes {
			if e.confirmedByNet[h] && accepted[h] && !confirmed[h] {
				confirmed[h] = true
				vpReach("confirmed-by-the-network")
			}
		}
	}
	nev := vpParam("events", 3)
	for ev := 0; ev < nev; ev++ {
		switch vpRange("event", 0, vpParam("eventkinds", 3)) {
		case 0: // broadcast request
			k := vpRange("tx", 0, 2)
			var out error
			switch vpRange("outcome", 0, 2) {
			case 1:
				out = &BroadcastError{Code: Mempool, Reason: "already in mempool"}
			case 2:
				out = &BroadcastError{Code: Invalid, Reason: "invalid"}
			}
			e.outcome[hashes[k]] = out
			e.inRequest = true
			err := e.b.Broadcast(txs[k])
			e.inRequest = false
			e.outcome[hashes[k]] = nil // later rebroadcasts are accepted again by the network
			if IsBroadcastError(out, Invalid) {
				vpReach("rejected")
				vpAssert(err != nil, "rejected-broadcast-reports-failure")
				if !accepted[hashes[k]] {
					rejected[hashes[k]] = true
				}
			} else {
				vpReach("accepted")
				vpAssert(err == nil, "accepted-or-mempool-broadcast-succeeds")
				accepted[hashes[k]] = true
				delete(confirmed, hashes[k])
				delete(rejected, hashes[k])
			}
		case 1: // a block event: starts a rebroadcast of everything pending
			e.failRebroadcast = map[chainhash.Hash]bool{}
			pendingNow := false
			for _, h := range hashes {
				if accepted[h] && !confirmed[h] {
					pendingNow = true
				}
			}
			if pendingNow && vpParam("netbehaviour", 1) == 1 {
				// how the network answers this round's rebroadcasts: normally, or
				// "already confirmed" for one tx (from now on), or a plain error for
				// one tx (this round only; the others are still due)
				switch nb := vpRange("networkBehaviour", 0, 6); {
				case nb >= 1 && nb <= 3:
					e.confirmedByNet[hashes[nb-1]] = true
				case nb >= 4:
					e.failRebroadcast[hashes[nb-4]] = true
					vpReach("a-rebroadcast-fails")
				}
			}
			before := len(e.calls)
			e.batches++
			batch := e.batches
			e.ntfns <- blockntfns.NewBlockConnected(wire.BlockHeader{}, uint32(ev))
			vpQuiesce()
			e.failRebroadcast = map[chainhash.Hash]bool{}
			vpReach("block")
			checkBatch(before, batch)
		case 3: // two block events, the second while the first's rebroadcast still waits for its peers
			anyP := false
			for _, h := range hashes {
				if accepted[h] && !confirmed[h] {
					anyP = true
				}
			}
			if !anyP {
				continue
			}
			before := len(e.calls)
			e.batches++
			batch := e.batches
			e.hold = make(chan struct{})
			e.holding = true
			e.ntfns <- blockntfns.NewBlockConnected(wire.BlockHeader{}, uint32(ev))
			vpQuiesce()
			e.ntfns <- blockntfns.NewBlockConnected(wire.BlockHeader{}, uint32(ev)+100) // must not start a second one
			vpQuiesce()
			e.holding = false
			close(e.hold)
			vpQuiesce()
			vpReach("block-during-a-running-rebroadcast")
			checkBatch(before, batch)
		case 2: // the rescan reports a confirmation
			k := vpRange("tx", 0, 2)
			e.b.MarkAsConfirmed(hashes[k])
			confirmed[hashes[k]] = true
			vpReach("confirmed")
		}
	}
	// Stop called while a rebroadcast is waiting for its peers, which then
	// answer "already confirmed": Stop must still return
	anyPending := false
	for _, h := range hashes {
		if accepted[h] && !confirmed[h] {
			anyPending = true
		}
	}
	if anyPending && vpParam("stopmid", 1) == 1 && vpRange("stopDuringRebroadcast", 0, 1) == 1 {
		for _, h := range hashes {
			e.confirmedByNet[h] = true
		}
		e.stopInCallback = true
		e.stopDone = make(chan struct{})
		e.batches++
		e.ntfns <- blockntfns.NewBlockConnected(wire.BlockHeader{}, 99)
		<-e.stopDone // a Stop that never returns shows up as a deadlock
		vpReach("stopped-during-a-rebroadcast")
	}
	// Stop called while the handler is serving a caller's broadcast request
	// (inside the backend call, before the peers have answered): the caller is
	// released and Stop returns
	if vpParam("stopinrequest", 0) == 1 && !e.stopStarted && vpRange("stopDuringARequest", 0, 1) == 1 {
		e.stopInRequest = true
		e.stopDone = make(chan struct{})
		e.inRequest = true
		err := e.b.Broadcast(other)
		e.inRequest = false
		_ = err // the verdict or the shutdown error
		<-e.stopDone // a Stop that never returns shows up as a deadlock
		vpReach("stopped-during-a-broadcast-request")
	}
	// stopping returns, cancels the subscription, and later calls do not block
	e.b.Stop()
	vpAssert(e.cancelled, "stop-cancels-the-block-subscription")
	err := e.b.Broadcast(other)
	vpAssert(errors.Is(err, ErrBroadcasterStopped), "broadcast-after-stop-fails-fast")
	if vpParam("confirmAfterStop", 1) == 1 {
		e.b.MarkAsConfirmed(hashes[2]) // must return (a hang shows up as a deadlock)
		vpReach("mark-confirmed-after-stop-returned")
	}
}

// VerifH_C15_ticks: the interval trigger, in virtual time.  With a
// rebroadcast interval of one minute and no block events, accepted
// transactions are rebroadcast (parents first) by every tick until they are
// reported confirmed, never between ticks, and never afterwards.
func VerifH_C15_ticks() {
	vpOpt("clock", 1)
	vpOpt("timed", 1)
	vpOpt("timers", 16)
	parent := &wire.MsgTx{Version: 2, LockTime: 1, TxIn: []*wire.TxIn{{PreviousOutPoint: wire.OutPoint{Index: 11}}},
		TxOut: []*wire.TxOut{{Value: 10, PkScript: []byte{0x51}}}}
	child := &wire.MsgTx{Version: 2, LockTime: 2, TxIn: []*wire.TxIn{{PreviousOutPoint: wire.OutPoint{Hash: parent.TxHash(), Index: 0}}},
		TxOut: []*wire.TxOut{{Value: 9, PkScript: []byte{0x52}}}}
	txs := []*wire.MsgTx{parent, child}
	hashes := []chainhash.Hash{parent.TxHash(), child.TxHash()}
	var calls []chainhash.Hash
	ntfns := make(chan blockntfns.BlockNtfn)
	reject := map[chainhash.Hash]bool{}
	var hold chan struct{} // rebroadcast callbacks wait here (slow peers)
	inRequest := false
	b := NewBroadcaster(&Config{
		Broadcast: func(tx *wire.MsgTx) error {
			calls = append(calls, tx.TxHash())
			if hold != nil && !inRequest {
				<-hold
			}
			if reject[tx.TxHash()] {
				return &BroadcastError{Code: Invalid, Reason: "invalid"}
			}
			return nil
		},
		SubscribeBlocks: func() (*blockntfns.Subscription, error) {
			return &blockntfns.Subscription{Notifications: ntfns, Cancel: func() {}}, nil
		},
		RebroadcastInterval: time.Minute,
	})
	if err := b.Start(); err != nil {
		vpAssert(false, "start-ok")
		return
	}
	pending := map[chainhash.Hash]bool{}
	// submit the child first or the parent first, or only one of them; one may be rejected
	order := vpRange("submitOrder", 0, 3) // 0: parent, child  1: child, parent  2: parent only  3: child only
	var seq []int
	switch order {
	case 0:
		seq = []int{0, 1}
	case 1:
		seq = []int{1, 0}
	case 2:
		seq = []int{0}
	default:
		seq = []int{1}
	}
	rej := vpRange("rejected", -1, 1)
	for _, k := range seq {
		reject[hashes[k]] = k == rej
		inRequest = true
		err := b.Broadcast(txs[k])
		inRequest = false
		if k == rej {
			vpAssert(err != nil, "rejected-broadcast-reports-failure")
		} else {
			vpAssert(err == nil, "accepted-broadcast-succeeds")
			pending[hashes[k]] = true
		}
		reject[hashes[k]] = false
	}
	rounds := vpParam("rounds", 2)
	for r := 0; r < rounds; r++ {
		if vpRange("confirmOne", 0, 1) == 1 {
			k := vpRange("confirmTx", 0, 1)
			b.MarkAsConfirmed(hashes[k])
			delete(pending, hashes[k])
			vpReach("confirmed-between-ticks")
		}
		before := len(calls)
		time.Sleep(30 * time.Second)
		vpQuiesce()
		vpAssert(len(calls) == before, "no-rebroadcast-between-ticks")
		time.Sleep(30*time.Second + time.Millisecond)
		vpQuiesce()
		got := calls[before:]
		vpReach("interval-tick")
		want := 0
		for k, h := range hashes {
			n := 0
			for _, g := range got {
				if g == h {
					n++
				}
			}
			if pending[h] {
				want++
				vpAssert(n == 1, "pending-tx-is-rebroadcast-once-per-tick")
			} else {
				vpAssert(n == 0, "confirmed-rejected-or-unknown-tx-is-not-rebroadcast-by-a-tick")
			}
			_ = k
		}
		vpAssert(len(got) == want, "tick-rebroadcast-is-exactly-the-pending-set")
		if pending[hashes[0]] && pending[hashes[1]] {
			vpReach("parent-and-child-pending-at-a-tick")
			vpAssert(len(got) == 2 && got[0] == hashes[0] && got[1] == hashes[1], "parent-before-child-at-a-tick")
		}
	}
	// a tick that finds the previous rebroadcast still running starts nothing,
	// and the ticks after that rebroadcast has finished work as before
	npend := 0
	for _, h := range hashes {
		if pending[h] {
			npend++
		}
	}
	if npend > 0 && vpParam("slowpeers", 1) == 1 && vpRange("tickDuringARunningRebroadcast", 0, 1) == 1 {
		hold = make(chan struct{})
		before := len(calls)
		time.Sleep(time.Minute + time.Millisecond) // this tick starts a rebroadcast whose first callback waits
		vpQuiesce()
		vpAssert(len(calls) == before+1, "tick-starts-a-rebroadcast")
		time.Sleep(time.Minute) // the next tick finds it still running
		vpQuiesce()
		vpAssert(len(calls) == before+1, "no-second-rebroadcast-while-one-is-running")
		h := hold
		hold = nil
		close(h)
		vpQuiesce()
		vpAssert(len(calls) == before+npend, "held-rebroadcast-completes")
		vpReach("tick-during-a-running-rebroadcast")
		before = len(calls)
		time.Sleep(time.Minute + time.Millisecond)
		vpQuiesce()
		vpAssert(len(calls) == before+npend, "ticks-keep-rebroadcasting-after-a-skipped-tick")
	}
	b.Stop()
}
