package banman

// C13 — bans are exact, durable and enforced (store part): a reference
// map is compared with the real banStore over a symbolic history of
// ban / unban / status / reopen operations with symbolic clock readings.

import (
	"bytes"
	"net"
	"time"

	"github.com/btcsuite/btcwallet/walletdb"
)

// ---- clock: time.Now() in store.go is redirected to vpNow() ----

type vpClockT struct {
	last  time.Time
	calls int
	sec   uint32
	nsec  uint32
}

var vpClock = &vpClockT{}

// vpNow returns an arbitrary instant that is not earlier than the
// previous one (seconds and nanoseconds symbolic).
func vpNow() time.Time {
	sec := vpU32("now.sec")
	nsec := vpU32("now.nsec")
	vpAssume(vpAnd(nsec < 1000000000, sec < 4000000000))
	if vpClock.calls > 0 {
		later := vpOr(sec > vpClock.sec, vpAnd(sec == vpClock.sec, nsec >= vpClock.nsec))
		vpAssume(later)
	}
	vpClock.calls++
	vpClock.sec, vpClock.nsec = sec, nsec
	vpClock.last = time.Unix(int64(sec), int64(nsec))
	return vpClock.last
}

// ---- symbolic IP networks ----

// vpIPNet builds an IP network of the given family:
// 0 = IPv4 (4 bytes), 1 = IPv4 in 16-byte form, 2 = IPv6.
func vpIPNet(label string, family int) *net.IPNet {
	switch family {
	case 0:
		return &net.IPNet{IP: net.IP(vpBytes(label+".ip4", 4)), Mask: net.CIDRMask(32, 32)}
	case 1:
		ip := make([]byte, 16)
		ip[10], ip[11] = 0xff, 0xff
		copy(ip[12:], vpBytes(label+".ip4", 4))
		return &net.IPNet{IP: ip, Mask: net.CIDRMask(32, 32)}
	default:
		ip := vpBytes(label+".ip6", 16)
		// a genuine IPv6 address with a non-zero first byte (global
		// unicast, ULA, link-local ...); the v4-mapped range is family 1
		vpAssume(ip[0] != 0)
		return &net.IPNet{IP: ip, Mask: net.CIDRMask(128, 128)}
	}
}

// vpNormIP is the reference normalisation: the 4-byte form when the
// address is IPv4 (in either spelling), the 16-byte form otherwise.
func vpNormIP(n *net.IPNet) []byte {
	if len(n.IP) == 4 {
		return n.IP
	}
	if ip4 := n.IP.To4(); ip4 != nil {
		return ip4
	}
	return n.IP
}

func vpSameNet(a, b *net.IPNet) bool {
	x, y := vpNormIP(a), vpNormIP(b)
	if len(x) != len(y) || len(a.Mask) != len(b.Mask) {
		return false
	}
	return vpAnd(vpEqBytes(x, y), vpEqBytes(a.Mask, b.Mask))
}

type vpBanRef struct {
	banned bool
	reason Reason
	expiry int64 // recorded absolute expiry (whole seconds)
}

var vpDurations = []time.Duration{
	time.Second, 1500 * time.Millisecond, 2 * time.Second, 24 * time.Hour, 3*time.Second + 999999999,
}

// VerifH_C13_store: ops operations over two distinct networks.
func VerifH_C13_store() {
	vpClock = &vpClockT{}
	vpFault = &vpFaultCtl{}
	db := vpNewDB()
	st, err := newBanStore(db)
	vpAssert(err == nil, "store-created")
	if err != nil {
		return
	}
	nets := []*net.IPNet{vpIPNet("A", vpRange("famA", 0, 2)), vpIPNet("B", vpRange("famB", 0, 2))}
	vpAssume(vpNot(vpSameNet(nets[0], nets[1])))
	refs := []*vpBanRef{{}, {}}
	nops := vpParam("ops", 3)
	for op := 0; op < nops; op++ {
		kind := vpRange("op", 0, 3)
		w := vpRange("net", 0, 1)
		n, ref := nets[w], refs[w]
		switch kind {
		case 0: // ban
			reason := Reason(vpU8("reason"))
			d := vpDurations[vpRange("duration", 0, len(vpDurations)-1)]
			err := st.BanIPNet(n, reason, d)
			vpAssert(err == nil, "ban-ok")
			if err != nil {
				return
			}
			at := vpClock.last
			trueExpiry := at.Add(d)
			ref.banned, ref.reason, ref.expiry = true, reason, trueExpiry.Unix()
			// the recorded expiry is within one second of now+duration
			vpReach("ban")
		case 1: // unban
			err := st.UnbanIPNet(n)
			vpAssert(err == nil, "unban-ok")
			ref.banned = false
			vpReach("unban")
		case 2: // status
			got, err := st.Status(n)
			vpAssert(err == nil, "status-ok")
			if err != nil {
				return
			}
			now := vpClock.last
			if ref.banned {
				live := now.Unix() < ref.expiry
				// branch on it: both sides are explored
				if live {
					vpReach("status-banned")
					vpAssert(got.Banned, "banned-before-lapse")
					vpAssert(got.Reason == ref.reason, "reason-recorded")
					vpAssert(got.Expiration.Unix() == ref.expiry, "expiration-recorded")
				} else {
					vpReach("status-lapsed")
					vpAssert(!got.Banned, "not-banned-after-lapse")
					ref.banned = false
				}
			} else {
				vpReach("status-unbanned")
				vpAssert(!got.Banned, "not-banned-when-never-banned-or-lifted")
			}
		case 3: // close and reopen the database
			st, err = newBanStore(db)
			vpAssert(err == nil, "reopen-ok")
			if err != nil {
				return
			}
			vpReach("reopen")
		}
	}
	// final sweep: both networks answer according to the reference
	for w := 0; w < 2; w++ {
		got, err := st.Status(nets[w])
		vpAssert(err == nil, "final-status-ok")
		if err != nil {
			return
		}
		now := vpClock.last
		want := vpAnd(refs[w].banned, now.Unix() < refs[w].expiry)
		vpAssert(got.Banned == want, "final-status-matches-reference")
	}
}

// VerifH_C13_expiryBound: the recorded expiry is not later than
// now+duration and less than one second earlier, so a ban of at least
// one second is never reported lapsed at the instant it is imposed.
func VerifH_C13_expiryBound() {
	vpClock = &vpClockT{}
	vpFault = &vpFaultCtl{}
	db := vpNewDB()
	st, err := newBanStore(db)
	if err != nil {
		vpAssert(false, "store-created")
		return
	}
	n := vpIPNet("A", vpRange("famA", 0, 2))
	d := vpDurations[vpRange("duration", 0, len(vpDurations)-1)]
	if err := st.BanIPNet(n, Reason(vpU8("reason")), d); err != nil {
		vpAssert(false, "ban-ok")
		return
	}
	at := vpClock.last
	trueExpiry := at.Add(d)
	got, err := st.Status(n)
	vpAssert(err == nil, "status-ok")
	now := vpClock.last
	if now.Before(at.Add(d - time.Second)) {
		vpReach("well-before-lapse")
		vpAssert(got.Banned, "banned-until-at-least-duration-minus-1s")
	}
	if !now.Before(trueExpiry) {
		vpReach("after-true-expiry")
		vpAssert(!got.Banned, "never-banned-beyond-now-plus-duration")
	}
	if got.Banned {
		vpAssert(vpAnd(!trueExpiry.Before(got.Expiration), trueExpiry.Sub(got.Expiration) < time.Second), "recorded-expiry-within-1s")
	}
}

// VerifH_C13_keys: the database key depends only on the normalised IP
// value and the mask (every form of one IP = one record, different IPs =
// different records) and decodeIPNet inverts encodeIPNet.
func VerifH_C13_keys() {
	a := vpIPNet("A", vpRange("famA", 0, 2))
	b := vpIPNet("B", vpRange("famB", 0, 2))
	var ka, kb bytes.Buffer
	ea := encodeIPNet(&ka, a)
	eb := encodeIPNet(&kb, b)
	vpAssert(ea == nil && eb == nil, "encode-ok")
	same := vpSameNet(a, b)
	keysEq := false
	if ka.Len() == kb.Len() {
		keysEq = vpEqBytes(ka.Bytes(), kb.Bytes())
	}
	vpAssert(same == keysEq, "key-equal-iff-same-network")
	dec, err := decodeIPNet(bytes.NewReader(ka.Bytes()))
	vpAssert(err == nil, "decode-ok")
	if err == nil {
		vpAssert(vpSameNet(dec, a), "decode-inverts-encode")
		var k2 bytes.Buffer
		encodeIPNet(&k2, dec)
		vpAssert(vpEqBytes(k2.Bytes(), ka.Bytes()), "re-encode-stable")
	}
}

// VerifH_C13_spellings: every textual form of one IP address (with and
// without port, IPv4 dotted, IPv4-mapped IPv6, bracketed) parses to the
// same record key; different addresses parse to different keys.
func VerifH_C13_spellings() {
	groups := [][]string{
		{"1.2.3.4", "1.2.3.4:8333", "::ffff:1.2.3.4", "[::ffff:1.2.3.4]:8333", "::ffff:102:304", "0:0:0:0:0:ffff:0102:0304"},
		{"2001:db8::1", "[2001:db8::1]:8333", "2001:0db8:0000:0000:0000:0000:0000:0001", "2001:DB8::1"},
		{"10.0.0.1", "10.0.0.1:18333", "::ffff:a00:1"},
	}
	var keys [][]byte
	for _, g := range groups {
		var first []byte
		for _, s := range g {
			n, err := ParseIPNet(s, nil)
			vpAssert(err == nil, "spelling-parses")
			if err != nil {
				continue
			}
			var k bytes.Buffer
			vpAssert(encodeIPNet(&k, n) == nil, "spelling-encodes")
			if first == nil {
				first = append([]byte(nil), k.Bytes()...)
			} else {
				vpAssert(bytes.Equal(first, k.Bytes()), "same-ip-same-key")
			}
		}
		keys = append(keys, first)
	}
	vpAssert(!bytes.Equal(keys[0], keys[1]) && !bytes.Equal(keys[0], keys[2]) && !bytes.Equal(keys[1], keys[2]), "different-ip-different-key")
	_, err := ParseIPNet("example.onion:8333", nil)
	vpAssert(err == ErrUnsupportedIP, "non-ip-unsupported")
}

// VerifH_C13_reban: a directed three-step history on one network —
// ban, (optional status / reopen), ban again with another reason and
// duration, status — at arbitrary non-decreasing instants: the second ban
// replaces the first whether or not the first has lapsed or been queried.
func VerifH_C13_reban() {
	vpClock = &vpClockT{}
	vpFault = &vpFaultCtl{}
	db := vpNewDB()
	st, err := newBanStore(db)
	if err != nil {
		vpAssert(false, "store-created")
		return
	}
	n := vpIPNet("A", vpRange("famA", 0, 2))
	r1, r2 := Reason(vpU8("reason1")), Reason(vpU8("reason2"))
	d1 := vpDurations[vpRange("duration1", 0, 2)]
	d2 := vpDurations[vpRange("duration2", 0, 2)]
	if err := st.BanIPNet(n, r1, d1); err != nil {
		vpAssert(false, "ban1-ok")
		return
	}
	switch vpRange("between", 0, 2) {
	case 1:
		st.Status(n) // may lazily delete a lapsed record
	case 2:
		st, err = newBanStore(db)
		if err != nil {
			vpAssert(false, "reopen-ok")
			return
		}
	}
	if err := st.BanIPNet(n, r2, d2); err != nil {
		vpAssert(false, "ban2-ok")
		return
	}
	exp2 := vpClock.last.Add(d2).Unix()
	got, err := st.Status(n)
	vpAssert(err == nil, "status-ok")
	now := vpClock.last
	if now.Unix() < exp2 {
		vpReach("second-ban-live")
		vpAssert(got.Banned, "second-ban-in-force")
		vpAssert(got.Reason == r2, "second-ban-reason")
		vpAssert(got.Expiration.Unix() == exp2, "second-ban-expiry")
	} else {
		vpReach("second-ban-lapsed")
		vpAssert(!got.Banned, "second-ban-lapsed-not-banned")
	}
	// unban lifts it for every later query
	if err := st.UnbanIPNet(n); err != nil {
		vpAssert(false, "unban-ok")
		return
	}
	got, err = st.Status(n)
	vpAssert(err == nil && !got.Banned, "not-banned-after-unban")
}

// ---- operations of two callers interleaved at transaction granularity ----

// vpHookDB runs a hook right after the k-th transaction of the wrapped
// database has ended: bbolt serialises transactions, so between two
// transactions of one caller is exactly where another caller's operation
// can take place.
type vpHookDB struct {
	*vpDB
	ended  int
	fireAt int
	hook   func()
}

func (d *vpHookDB) after() {
	d.ended++
	if d.hook != nil && d.ended == d.fireAt {
		h := d.hook
		d.hook = nil
		h()
	}
}
func (d *vpHookDB) View(f func(tx walletdb.ReadTx) error, reset func()) error {
	err := d.vpDB.View(f, reset)
	d.after()
	return err
}
func (d *vpHookDB) Update(f func(tx walletdb.ReadWriteTx) error, reset func()) error {
	err := d.vpDB.Update(f, reset)
	d.after()
	return err
}

// VerifH_C13_statusRace: a status query of a network whose earlier ban has
// lapsed (and was not queried since) runs while another caller bans that
// network again; the second caller's transaction lands after any one of
// the query's transactions.  Whatever the order, the new ban was recorded
// after the old one lapsed, so every later query reports it - with its
// reason and expiry - also after reopening.
func VerifH_C13_statusRace() {
	vpClock = &vpClockT{}
	vpFault = &vpFaultCtl{}
	db := &vpHookDB{vpDB: vpNewDB()}
	st, err := newBanStore(db)
	if err != nil {
		vpAssert(false, "store-created")
		return
	}
	n := vpIPNet("A", vpRange("famA", 0, 2))
	r1, r2 := Reason(vpU8("reason1")), Reason(vpU8("reason2"))
	if err := st.BanIPNet(n, r1, time.Second); err != nil {
		vpAssert(false, "ban1-ok")
		return
	}
	t1 := vpClock.last
	var exp2 int64
	banned2 := false
	db.ended = 0
	db.fireAt = vpRange("otherCallerAfterTx", 1, 2)
	db.hook = func() {
		if err := st.BanIPNet(n, r2, 24*time.Hour); err != nil {
			vpAssert(false, "ban2-ok")
			return
		}
		banned2 = true
		exp2 = vpClock.last.Add(24 * time.Hour).Unix()
	}
	got, err := st.Status(n)
	vpAssert(err == nil, "status-ok")
	if !banned2 {
		// the query needed fewer transactions than the hook waited for: the
		// other caller comes right after it
		db.hook()
		db.hook = nil
	}
	_ = got
	if vpClock.last.Unix() < t1.Add(time.Second).Unix() {
		return // the first ban had not lapsed yet (the store group covers that)
	}
	vpReach("ban-recorded-while-a-lapsed-record-was-being-queried")
	for k := 0; k < 2; k++ {
		s2, err := st.Status(n)
		vpAssert(err == nil, "status-ok")
		if vpClock.last.Unix() < exp2 {
			vpAssert(s2.Banned && s2.Reason == r2 && s2.Expiration.Unix() == exp2, "ban-recorded-during-a-status-query-is-in-force")
		}
		st, err = newBanStore(db)
		if err != nil {
			vpAssert(false, "reopen-ok")
			return
		}
	}
}
