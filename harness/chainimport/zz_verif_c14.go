package chainimport

// C14 — header import leaves the stores equal to the file, or consistent
// on failure.  The real headersImport flow, iterators and validators run
// against an in-memory import source and slice-backed target stores
// (whose conformance with the real headerfs stores is the subject of C07).

import (
	"context"
	"errors"
	"fmt"
	"io"
	"math/big"
	"time"

	"github.com/btcsuite/btcd/blockchain"
	"github.com/btcsuite/btcd/chaincfg/v2"
	"github.com/btcsuite/btcd/chainhash/v2"
	"github.com/btcsuite/btcd/wire/v2"
	"github.com/lightninglabs/neutrino/headerfs"
)

var _ = errors.New

// ---- in-memory import source ----

type vpSource struct {
	meta    *headerMetadata
	headers []Header
	uri     string
	onGet   func()
	fault   *vpReadFault
}

// vpReadFault: the failAt-th read over both import sources fails once.
type vpReadFault struct {
	reads, failAt int
	happened      bool
}

func (f *vpReadFault) hit() bool {
	f.reads++
	if f.failAt != 0 && f.reads == f.failAt && !f.happened {
		f.happened = true
		return true
	}
	return false
}

// vpCtx: a context the harness cancels at a chosen moment.
type vpCtx struct {
	done chan struct{}
	err  error
}

func (c *vpCtx) Deadline() (time.Time, bool)       { return time.Time{}, false }
func (c *vpCtx) Done() <-chan struct{}             { return c.done }
func (c *vpCtx) Err() error                        { return c.err }
func (c *vpCtx) Value(key interface{}) interface{} { return nil }
func (c *vpCtx) cancel() {
	if c.err == nil {
		c.err = context.Canceled
		close(c.done)
	}
}

func (s *vpSource) Open() error  { return nil }
func (s *vpSource) Close() error { return nil }
func (s *vpSource) GetHeaderMetadata() (*headerMetadata, error) {
	return s.meta, nil
}
func (s *vpSource) Iterator(start, end uint32, batchSize uint32) HeaderIterator {
	return &importSourceHeaderIterator{source: s, startIndex: start, endIndex: end, batchSize: batchSize}
}
func (s *vpSource) GetHeader(index uint32) (Header, error) {
	if s.onGet != nil {
		s.onGet()
	}
	if s.fault != nil && s.fault.hit() {
		// what the file source reports when the file turns out shorter than
		// it was when opened: its read error wraps io.EOF
		vpReach("import-source-read-fails")
		return nil, fmt.Errorf("vp: failed to read header at index %d: %w", index, io.EOF)
	}
	if int(index) >= len(s.headers) {
		return nil, errors.New("vp: header index out of bounds")
	}
	return s.headers[index], nil
}
func (s *vpSource) GetURI() string    { return s.uri }
func (s *vpSource) SetURI(uri string) { s.uri = uri }

// vpHarnessNet: a network for which the source overlay adds one hard-coded
// filter-header checkpoint (chainsync/filtercontrol.go, regenerated per run):
// height vpFCheckpointHeight must carry vpFCheckpoint.
const vpHarnessNet = wire.BitcoinNet(0x76700001)
const vpFCheckpointHeight = 2

var vpFCheckpoint = chainhash.Hash{0xf0, vpFCheckpointHeight}

// vpReqBits: the difficulty the rules require of a header with timestamp ts
// on top of parent, restated independently of btcd: no retargeting when
// interval is 0; otherwise every interval-th height the target is scaled by
// the time the last interval took (clamped to a factor of 4 and to the
// proof-of-work limit), and with the testnet-style minimum-difficulty
// exception a header more than 20 minutes after its parent carries the
// proof-of-work limit while any other one carries the difficulty of the
// nearest ancestor that is not such an exception.
func vpReqBits(parent []wire.BlockHeader, ts int64, interval int, mindiff bool) uint32 {
	if interval == 0 {
		return vpPowLimitBits
	}
	h := len(parent)
	last := parent[h-1]
	if h%interval != 0 {
		if mindiff {
			if ts > last.Timestamp.Unix()+20*60 {
				vpReach("minimum-difficulty-exception-applies")
				return vpPowLimitBits
			}
			i := h - 1
			for i > 0 && i%interval != 0 && parent[i].Bits == vpPowLimitBits {
				i--
			}
			if parent[i].Bits != last.Bits {
				vpReach("difficulty-restored-after-a-minimum-difficulty-header")
			}
			return parent[i].Bits
		}
		return last.Bits
	}
	first := parent[h-interval]
	span := int64(interval) * 600
	actual := last.Timestamp.Unix() - first.Timestamp.Unix()
	if actual < span/4 {
		actual = span / 4
	}
	if actual > span*4 {
		actual = span * 4
	}
	nt := new(big.Int).Mul(blockchain.CompactToBig(last.Bits), big.NewInt(actual))
	nt.Div(nt, big.NewInt(span))
	if nt.Cmp(vpPowLimit) > 0 {
		nt.Set(vpPowLimit)
	}
	return blockchain.BigToCompact(nt)
}

func vpParams() chaincfg.Params {
	g := wire.BlockHeader{Version: 4, Timestamp: time.Unix(1296688602, 0), Bits: vpPowLimitBits}
	vpGrind(&g, true)
	gh := g.BlockHash()
	return chaincfg.Params{
		Name:                     "vp",
		Net:                      vpHarnessNet,
		GenesisBlock:             &wire.MsgBlock{Header: g},
		GenesisHash:              &gh,
		PowLimit:                 vpPowLimit,
		PowLimitBits:             vpPowLimitBits,
		PoWNoRetargeting:         true,
		TargetTimespan:           time.Hour * 24 * 14,
		TargetTimePerBlock:       time.Minute * 10,
		RetargetAdjustmentFactor: 4,
		BIP0034Height:            100000000,
		BIP0065Height:            100000000,
		BIP0066Height:            100000000,
	}
}

// VerifH_C14_import: see the file comment.
func VerifH_C14_import() {
	vpOpt("clock", 1)
	params := vpParams()
	maxH := vpParam("maxheight", 5)
	// a network that retargets every `retarget` blocks, optionally with the
	// testnet-style minimum-difficulty exception
	interval := vpParam("retarget", 0)
	mindiff := vpParam("mindiff", 0) == 1
	if interval > 0 {
		params.PoWNoRetargeting = false
		params.TargetTimespan = time.Duration(interval) * params.TargetTimePerBlock
		if mindiff {
			params.ReduceMinDifficulty = true
			params.MinDiffReductionTime = 20 * time.Minute
		}
	}

	// ---- the honest chain 0..maxH (every header valid and linked) ----
	chain := []wire.BlockHeader{params.GenesisBlock.Header}
	filters := []chainhash.Hash{{0x0f}}
	for h := 1; h <= maxH; h++ {
		hdr := wire.BlockHeader{Version: 4, PrevBlock: chain[h-1].BlockHash(),
			Timestamp: time.Unix(1296688602+int64(h)*600, 0)}
		hdr.Bits = vpReqBits(chain, hdr.Timestamp.Unix(), interval, mindiff)
		vpGrind(&hdr, true)
		chain = append(chain, hdr)
		var f chainhash.Hash
		f[0], f[1] = 0xf0, byte(h)
		filters = append(filters, f)
	}

	// ---- target stores ----
	bt := vpRange("blockTip", vpParam("mintip", 0), vpParam("maxtip", 2))
	ft := vpRange("filterTip", vpParam("mintip", 0), vpParam("maxtip", 2))
	if vpParam("equaltips", 0) == 1 && bt != ft {
		return
	}
	ctl := &vpWriteCtl{}
	bs := &vpBlockStore{hdrs: append([]wire.BlockHeader(nil), chain[:bt+1]...), ctl: ctl}
	fs := &vpFilterStore{hashes: append([]chainhash.Hash(nil), filters[:ft+1]...), ctl: ctl}

	// ---- the import files ----
	start := vpRange("fileStart", vpParam("minstart", 0), vpParam("maxstart", 2))
	count := vpRange("fileCount", 1, vpParam("maxcount", 3))
	if start+count-1 > maxH {
		return
	}
	// The file is a self-consistent chain: the honest headers up to an
	// optional corrupted position, and from there on headers built on top
	// of the corrupted one (as an attacker would).
	// 0 none, 1 bad pow, 2 broken link, 3 wrong bits; on a retargeting network also 4 the proof-of-work limit claimed
	// whether or not the exception applies, 5 the parent's difficulty, 6 no defect: a fresh branch with spacings of its own
	corrupt := vpRange("corrupt", 0, vpParam("corruptions", 3))
	cpos := -1
	if corrupt != 0 {
		cpos = vpRange("corruptPos", 0, count-1)
	}
	// on a network with the minimum-difficulty exception the attacker's
	// headers may start before the defective one (each with a spacing of its own)
	fstart := cpos
	if mindiff && cpos > 0 {
		fstart = vpRange("freshFrom", 0, cpos)
	}
	var fileHdrs []wire.BlockHeader
	for i := 0; i < count; i++ {
		hh := start + i
		if cpos < 0 || i < fstart {
			fileHdrs = append(fileHdrs, chain[hh])
			continue
		}
		h := wire.BlockHeader{Version: 4, Timestamp: time.Unix(1296688602+int64(hh)*600+1, 0), Bits: vpPowLimitBits}
		if i > 0 {
			h.PrevBlock = fileHdrs[i-1].BlockHash()
		} else if hh > 0 {
			h.PrevBlock = chain[hh-1].BlockHash()
		}
		if interval > 0 && hh > 0 {
			// never equal to the honest header of this height, whatever its nonce
			h.Version = 5
			// the chain this header sits on, as far as the file and the honest chain tell
			parent := append([]wire.BlockHeader(nil), chain[:start]...)
			parent = append(parent, fileHdrs[:i]...)
			if mindiff {
				// each header by itself: one second beyond the 20-minute limit, exactly at it, or on time
				switch vpRange("spacing", 0, 2) {
				case 0:
					h.Timestamp = time.Unix(parent[hh-1].Timestamp.Unix()+20*60+1, 0)
				case 1:
					h.Timestamp = time.Unix(parent[hh-1].Timestamp.Unix()+20*60, 0)
				default:
					h.Timestamp = time.Unix(parent[hh-1].Timestamp.Unix()+600, 0)
				}
			}
			h.Bits = vpReqBits(parent, h.Timestamp.Unix(), interval, mindiff)
			if i == cpos {
				switch corrupt {
				case 4:
					h.Bits = vpPowLimitBits
				case 5:
					h.Bits = parent[hh-1].Bits
				}
			}
		}
		good := true
		if i == cpos {
			switch corrupt {
			case 1:
				good = false
			case 2:
				h.PrevBlock[5] ^= 0x40
			case 3:
				h.Bits = h.Bits - 1
			}
		}
		vpGrind(&h, good)
		fileHdrs = append(fileHdrs, h)
	}
	blkSrc := &vpSource{uri: "blocks"}
	fltSrc := &vpSource{uri: "filters"}
	// the filter-header file may carry a wrong value at one position
	fwrong := -1
	if vpParam("fcorrupt", 1) == 1 && vpRange("filterHeaderWrong", 0, 1) == 1 {
		fwrong = vpRange("filterHeaderWrongAt", 0, count-1)
	}
	for i := 0; i < count; i++ {
		hc := fileHdrs[i]
		blkSrc.headers = append(blkSrc.headers, &blockHeader{BlockHeader: headerfs.BlockHeader{BlockHeader: &hc, Height: uint32(start + i)}})
		fh := filters[start+i]
		if i == fwrong {
			fh[7] ^= 0x5a
		}
		fltSrc.headers = append(fltSrc.headers, &filterHeader{FilterHeader: headerfs.FilterHeader{FilterHash: fh, Height: uint32(start + i)}})
	}
	mk := func(t headerfs.HeaderType, size int) *headerMetadata {
		return &headerMetadata{importMetadata: &importMetadata{networkMagic: params.Net, headerType: t, startHeight: uint32(start)},
			endHeight: uint32(start + count - 1), headerSize: size, headersCount: uint32(count)}
	}
	blkSrc.meta = mk(headerfs.Block, 80)
	fltSrc.meta = mk(headerfs.RegularFilter, 32)

	opts := &ImportOptions{
		TargetChainParams:       params,
		TargetBlockHeaderStore:  bs,
		TargetFilterHeaderStore: fs,
		WriteBatchSizePerRegion: vpRange("batchSize", 1, vpParam("maxbatch", 2)),
	}
	imp := &headersImport{
		blockHeadersImportSource:  blkSrc,
		filterHeadersImportSource: fltSrc,
		blockHeadersValidator:     newBlockHeadersImportSourceValidator(params, bs, blockchain.BFNone, blkSrc),
		filterHeadersValidator:    newFilterHeadersImportSourceValidator(params),
		options:                   opts,
	}
	if vpParam("faults", 0) == 1 {
		ctl.failAt = vpRange("writeFailAt", 0, 3)
	}

	preB := append([]wire.BlockHeader(nil), bs.hdrs...)
	preF := append([]chainhash.Hash(nil), fs.hashes...)
	// a crash leaves the stores as they are at some instant between two
	// store-level operations (C08): the filter chain must never be ahead of
	// the block chain at any of them (unless it already was before)
	aheadAtSomeInstant := false
	unusableAtSomeInstant := false
	watch := func() {
		if len(fs.hashes) > len(bs.hdrs) && len(fs.hashes) > len(preF) {
			aheadAtSomeInstant = true
		}
		// a restart at this instant reopens the filter store through the block
		// hash recorded with its tip entry
		if len(fs.hashes) <= len(bs.hdrs) && !fs.usable(bs, len(fs.hashes) > len(preF)) {
			unusableAtSomeInstant = true
		}
	}
	bs.onMutate, fs.onMutate = watch, watch
	// the caller's context may be cancelled before the import starts or at
	// any read of the import files (0 = never)
	ctx := &vpCtx{done: make(chan struct{})}
	if cancelAt := vpRange("cancelAtRead", 0, vpParam("cancels", 0)); cancelAt > 0 {
		reads := 0
		tick := func() {
			reads++
			if reads == cancelAt-1 {
				ctx.cancel()
				vpReach("context-cancelled-during-the-import")
			}
		}
		blkSrc.onGet, fltSrc.onGet = tick, tick
		if cancelAt == 1 {
			ctx.cancel()
			vpReach("context-cancelled-before-the-import")
		}
	}
	// one read of the import files may fail (0 = never)
	rf := &vpReadFault{failAt: vpRange("sourceReadFailsAt", 0, vpParam("readfaults", 0))}
	blkSrc.fault, fltSrc.fault = rf, rf
	_, err := imp.Import(ctx)
	blkSrc.fault, fltSrc.fault = nil, nil
	if rf.happened && err == nil {
		// a read error that did not stop the import: allowed as long as success
		// still means "up to the file's last height" (checked below)
		vpNote("import-succeeded-despite-a-read-error")
	}
	blkSrc.onGet, fltSrc.onGet = nil, nil
	bs.onMutate, fs.onMutate = nil, nil
	vpAssert(!aheadAtSomeInstant, "filter-store-never-grows-ahead-of-block-store-at-any-instant")
	vpAssert(!unusableAtSomeInstant, "filter-store-tip-names-its-block-at-every-instant")
	ctl.failAt = 0

	fileEnd := start + count - 1
	if err == nil {
		vpReach("import-succeeded")
		// both stores: earlier contents extended by the file's headers up to its last height
		wantLen := fileEnd + 1
		wantB, wantF := wantLen, wantLen
		if len(preB) > wantB {
			wantB = len(preB)
		}
		if len(preF) > wantF {
			wantF = len(preF)
		}
		vpAssert(len(bs.hdrs) == wantB, "success:block-store-reaches-file-end")
		vpAssert(len(fs.hashes) == wantF, "success:filter-store-reaches-file-end")
		okB := len(bs.hdrs) >= len(preB)
		for i := 0; okB && i < len(preB); i++ {
			okB = bs.hdrs[i] == preB[i]
		}
		vpAssert(okB, "success:earlier-block-headers-kept")
		for i := len(preB); i < len(bs.hdrs) && i-start < count && i >= start; i++ {
			vpAssert(bs.hdrs[i] == fileHdrs[i-start], "success:new-block-headers-equal-file")
		}
		for i := len(preF); i < len(fs.hashes) && i >= start && i-start < count; i++ {
			vpAssert(fs.hashes[i] == fltSrc.headers[i-start].(*filterHeader).FilterHash, "success:new-filter-headers-equal-file")
		}
		if len(fs.hashes) > len(preF) {
			vpAssert(fs.tipBlk == bs.hdrs[len(fs.hashes)-1].BlockHash(), "success:filter-tip-names-its-block")
		}
		// repeating the import changes nothing
		nb, nf := len(bs.hdrs), len(fs.hashes)
		_, err2 := imp.Import(context.Background())
		if fwrong < 0 {
			vpAssert(err2 == nil, "second-import-succeeds")
		} else if err2 != nil {
			// a file that disagrees with data one store already held may be
			// refused the second time round; the property only asks that the
			// repeat changes nothing
			vpNote("second-import-of-a-disagreeing-file-refused")
		}
		vpAssert(len(bs.hdrs) == nb && len(fs.hashes) == nf, "second-import-changes-nothing")
	} else {
		vpReach("import-failed")
		if corrupt == 0 && ctl.calls == 0 && start <= vpMin(bt, ft)+1 {
			// an honest, connecting file was refused: allowed by the property
			// (a failure must only leave the stores consistent); recorded as a note
			vpNote("honest-file-refused")
		}
	}
	// ---- every stored filter header equals the hard-coded checkpoint at its height ----
	if len(fs.hashes) > vpFCheckpointHeight {
		vpReach("filter-checkpoint-height-stored")
		vpAssert(fs.hashes[vpFCheckpointHeight] == vpFCheckpoint, "stored-filter-header-equals-hard-coded-checkpoint")
	}
	// ---- in every case: what is stored is valid, linked and mutually consistent ----
	okPrefix := len(bs.hdrs) >= 1 && len(fs.hashes) >= 1
	vpAssert(okPrefix, "stores-non-empty")
	vpAssert(fs.usable(bs, len(fs.hashes) > len(preF)), "filter-store-tip-usable")
	for i := 1; i < len(bs.hdrs); i++ {
		vpAssert(bs.hdrs[i].PrevBlock == bs.hdrs[i-1].BlockHash(), "stored-block-headers-linked")
		if i >= len(preB) {
			hc := bs.hdrs[i]
			vpAssert(vpPowOK(&hc), "stored-new-header-passed-proof-of-work")
			vpAssert(hc.Bits == vpReqBits(bs.hdrs[:i], hc.Timestamp.Unix(), interval, mindiff), "stored-new-header-has-required-difficulty")
		}
	}
	if err != nil {
		// a failed import never leaves the stores further apart than they were
		d0 := len(preB) - len(preF)
		d1 := len(bs.hdrs) - len(fs.hashes)
		if d0 < 0 {
			d0 = -d0
		}
		if d1 < 0 {
			d1 = -d1
		}
		vpAssert(d1 <= d0, "failure:stores-not-further-apart")
		vpAssert(len(bs.hdrs) >= len(preB) && len(fs.hashes) >= len(preF), "failure:nothing-lost")
	}
}

func vpMin(a, b int) int {
	if a < b {
		return a
	}
	return b
}
