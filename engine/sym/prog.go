package sym

import (
	"fmt"
	"go/types"
	"os"
	"runtime"
	"sort"
	"strings"
	"sync"
	"time"

	"golang.org/x/tools/go/packages"
	"golang.org/x/tools/go/ssa"
	"golang.org/x/tools/go/ssa/ssautil"
)

type RunOpts struct {
	PassReplays   int // number of passing paths to export with a model, per harness
	MaxInstrs     int64
	Unwind        int
	MaxConcretize int
	MaxPaths      int64
	Workers       int
	Solver        string
	TimeoutMs     int
	InitPkgs      []string // package paths whose init() runs (concretely) before the harness
	Trace         bool
	LogSMT        string // directory for query logs ("" = none)
	KnownOpen     map[string]bool
	Params        map[string]int // harness parameters read with vpParam
	NoDefer       bool           // discharge every assertion immediately
}

func DefaultOpts() RunOpts {
	return RunOpts{MaxInstrs: 20_000_000, Unwind: 64, MaxConcretize: 300, Workers: runtime.NumCPU(),
		Solver: "z3", TimeoutMs: 60000, KnownOpen: map[string]bool{}, Params: map[string]int{}}
}

type externalFn func(fr *frame, args []value) value

type Program struct {
	ssa      *ssa.Program
	pkgs     []*packages.Package
	main     *ssa.Package // package holding the harnesses
	opts     RunOpts
	extCache sync.Map // *ssa.Function -> externalFn (or nil marker)
	sentinels sync.Map // *ssa.Global -> sentinelInfo
	Files    map[string]bool
}

// Load type-checks and builds SSA for the package in dir (with overlay
// files) and all of its dependencies.
func Load(dir string, pattern string, overlay map[string][]byte) (*Program, error) {
	cfg := &packages.Config{Mode: packages.LoadAllSyntax, Dir: dir, Overlay: overlay,
		Env: append(os.Environ(), "GOFLAGS=-mod=mod", "GOPROXY=off")}
	pkgs, err := packages.Load(cfg, pattern)
	if err != nil {
		return nil, err
	}
	if packages.PrintErrors(pkgs) > 0 {
		return nil, fmt.Errorf("package load errors")
	}
	prog, spkgs := ssautil.AllPackages(pkgs, ssa.InstantiateGenerics)
	prog.Build()
	p := &Program{ssa: prog, pkgs: pkgs, main: spkgs[0], opts: DefaultOpts()}
	return p, nil
}

func (p *Program) SetOpts(o RunOpts) { p.opts = o }
func (p *Program) Opts() RunOpts     { return p.opts }

func (p *Program) MainPkgPath() string { return p.main.Pkg.Path() }

// Harnesses lists the functions VerifH_* of the main package.
func (p *Program) Harnesses() []string {
	var out []string
	for name, m := range p.main.Members {
		if f, ok := m.(*ssa.Function); ok && strings.HasPrefix(name, "VerifH_") {
			out = append(out, f.Name())
		}
	}
	sort.Strings(out)
	return out
}

type nilExt struct{}

func (p *Program) initAllowed(path string) bool {
	for _, a := range p.opts.InitPkgs {
		if a == path {
			return true
		}
		if strings.HasSuffix(a, "...") && strings.HasPrefix(path, strings.TrimSuffix(a, "...")) {
			return true
		}
	}
	return false
}

func (p *Program) lookupExternal(fn *ssa.Function) externalFn {
	if v, ok := p.extCache.Load(fn); ok {
		if e, ok := v.(externalFn); ok {
			return e
		}
		return nil
	}
	var e externalFn
	name := fn.String()
	if x, ok := externals[name]; ok {
		e = x
	} else if o := fn.Origin(); o != nil && o != fn {
		if x, ok := externals[o.String()]; ok {
			e = x
		}
	}
	if e == nil && fn.Pkg != nil && fn.Signature.Recv() == nil && strings.HasPrefix(fn.Name(), "vp") {
		if x, ok := vpExternals[fn.Name()]; ok {
			e = x
		}
	}
	if e == nil && fn.Pkg != nil {
		if x, ok := pkgExternals[fn.Pkg.Pkg.Path()]; ok {
			e = x(fn)
		}
	}
	if e == nil {
		p.extCache.Store(fn, nilExt{})
	} else {
		p.extCache.Store(fn, e)
	}
	return e
}

// ---------------- workers ----------------

type worker struct {
	id     int
	st     *Store
	solver *Solver
	ex     *explorer
	stats  Stats
	sites  map[string]int
}

// RunHarness explores every path of the named harness function.
func (p *Program) RunHarness(name string) *HarnessResult {
	fn := p.main.Func(name)
	res := newHarnessResult(name)
	if fn == nil {
		res.engineErr("no such harness: " + name)
		return res
	}
	start := time.Now()
	ex := &explorer{prog: p, fn: name, opts: p.opts, result: res, maxPaths: p.opts.MaxPaths}
	ex.cond = sync.NewCond(&ex.mu)
	ex.queue = [][]int{{}}
	var wg sync.WaitGroup
	nw := p.opts.Workers
	if nw < 1 {
		nw = 1
	}
	workers := make([]*worker, nw)
	for k := 0; k < nw; k++ {
		w := &worker{id: k, st: NewStore(), ex: ex, sites: map[string]int{}}
		workers[k] = w
		wg.Add(1)
		go func() {
			defer wg.Done()
			var logw *os.File
			if p.opts.LogSMT != "" {
				os.MkdirAll(p.opts.LogSMT, 0o755)
				logw, _ = os.Create(fmt.Sprintf("%s/%s.w%d.smt2", p.opts.LogSMT, name, w.id))
				defer logw.Close()
			}
			var err error
			if logw != nil {
				w.solver, err = NewSolver(p.opts.Solver, p.opts.TimeoutMs, logw)
			} else {
				w.solver, err = NewSolver(p.opts.Solver, p.opts.TimeoutMs, nil)
			}
			if err != nil {
				res.engineErr("cannot start solver: " + err.Error())
				ex.abort()
				return
			}
			defer w.solver.Close()
			for {
				decs, ok := ex.take()
				if !ok {
					return
				}
				w.runPath(fn, decs)
				ex.done()
				if w.solver.Hung() {
					// replace the killed solver process
					old := w.solver
					old.Close()
					ns, err := NewSolver(p.opts.Solver, p.opts.TimeoutMs, nil)
					if err != nil {
						res.engineErr("cannot restart solver: " + err.Error())
						ex.abort()
						return
					}
					ns.Queries, ns.Time, ns.MaxQ = old.Queries, old.Time, old.MaxQ
					w.solver = ns
				}
			}
		}()
	}
	wg.Wait()
	for _, w := range workers {
		res.Stats.Paths += w.stats.Paths
		res.Stats.Completed += w.stats.Completed
		res.Stats.Infeasible += w.stats.Infeasible
		res.Stats.AssumeFalse += w.stats.AssumeFalse
		res.Stats.Instrs += w.stats.Instrs
		res.Stats.UnknownFeas += w.stats.unknownFeas
		res.Stats.PropQueries += w.stats.PropQueries
		res.Stats.PropUnsat += w.stats.PropUnsat
		res.Stats.PropSat += w.stats.PropSat
		res.Stats.PropUnknown += w.stats.PropUnknown
		res.Stats.PropConcrete += w.stats.PropConcrete
		res.Stats.Panics += w.stats.Panics
		res.Stats.Deadlocks += w.stats.Deadlocks
		for k, v := range w.sites {
			res.QuerySites[k] += v
		}
		if w.solver != nil {
			res.Stats.Queries += w.solver.Queries
			res.Stats.SolverTime += w.solver.Time
			if w.solver.MaxQ > res.Stats.MaxQuery {
				res.Stats.MaxQuery = w.solver.MaxQ
			}
		}
	}
	res.Truncated = ex.truncated
	res.Wall = time.Since(start)
	return res
}

// runPath executes the harness once along the given decision prefix.
func (w *worker) runPath(fn *ssa.Function, decs []int) {
	prog := w.ex.prog
	res := w.ex.result
	p := &path{w: w, decs: append([]int(nil), decs...), prefix: len(decs), seq: map[string]int{},
		reached: map[string]bool{}, unwinds: map[string]int{}, ufApps: map[string][]*Term{}}
	w.st.path = p
	w.stats.Paths++
	it := &interpreter{prog: prog, globals: map[*ssa.Global]*value{}, p: p, res: res,
		trace: prog.opts.Trace, initDone: map[*ssa.Package]bool{}, funcsSeen: map[*ssa.Function]bool{}, ext: map[string]any{}}
	sched := newScheduler(p)
	it.sched = sched
	p.sched_ = sched
	w.solver.Push()
	defer func() {
		if !w.solver.Hung() {
			func() {
				defer func() { recover() }()
				w.solver.Pop()
			}()
		}
		w.stats.Instrs += p.instrs
		res.mu.Lock()
		for f := range it.funcsSeen {
			res.Funcs[f.String()] = true
		}
		for l := range p.reached {
			res.Reached[l]++
		}
		for _, n := range p.notes {
			res.Notes[n]++
		}
		res.mu.Unlock()
	}()
	sched.spawn("main", func() {
		it.runInits()
		call(it, nil, fn.Pos(), fn, nil)
		it.flushAsserts()
	})
	var deadlock bool
	var desc string
	func() {
		defer func() {
			if r := recover(); r != nil {
				// panic raised on the driver goroutine (scheduler choose etc.)
				if sched.err == nil {
					sched.err = r
				}
				sched.killAllSafe()
			}
		}()
		deadlock, desc = sched.run()
	}()
	if _, isEnd := sched.err.(pathEnd); !isEnd {
		func() {
			defer func() {
				if r := recover(); r != nil {
					if _, ok := r.(pathEnd); !ok {
						res.engineErr(fmt.Sprint("flush: ", r))
					}
				}
			}()
			it.flushAsserts()
		}()
	}
	switch e := sched.err.(type) {
	case nil:
		if deadlock {
			w.stats.Deadlocks++
			w.reportViolation(p, "deadlock", "deadlock", "all goroutines blocked: "+desc, "")
		} else {
			w.stats.Completed++
			// keep a few explored cases for the evidence: prefer paths that
			// reached many labels
			// a few passing paths with concrete input values, for native
			// replay (validates the translation on non-failing runs too)
			if w.ex.prog.opts.PassReplays > 0 && !p.engineChoice && !p.violated && len(p.vars) > 0 {
				res.mu.Lock()
				want := len(res.PassReplays) < w.ex.prog.opts.PassReplays && (len(res.PassReplays) == 0 || w.stats.Completed%53 == 0)
				res.mu.Unlock()
				if want {
					if r := w.solver.Check(); r == Sat {
						var reached []string
						for k := range p.reached {
							if !strings.HasPrefix(k, "assert:") {
								reached = append(reached, k)
							}
						}
						sort.Strings(reached)
						v := Violation{Harness: w.ex.fn, Label: strings.Join(reached, ","), Kind: "pass", Values: p.model(),
							Decs: append([]int(nil), p.decs...)}
						res.mu.Lock()
						if len(res.PassReplays) < w.ex.prog.opts.PassReplays {
							res.PassReplays = append(res.PassReplays, v)
						}
						res.mu.Unlock()
					}
				}
			}
			res.mu.Lock()
			if len(res.PathSamples) < 6 && (len(res.PathSamples) < 2 || w.stats.Completed%97 == 0) {
				var parts []string
				for _, v := range p.vars {
					if v.Conc != nil {
						parts = append(parts, fmt.Sprintf("%s=%s", v.Label, v.Conc.String()))
					} else if v.Label != "nonce" {
						parts = append(parts, fmt.Sprintf("%s=<any %s>", v.Label, v.Kind))
					}
				}
				var reached []string
				for k := range p.reached {
					if !strings.HasPrefix(k, "assert:") {
						reached = append(reached, k)
					}
				}
				sort.Strings(reached)
				res.PathSamples = append(res.PathSamples, fmt.Sprintf("inputs{%s} path-condition %d conjuncts, reached %v", strings.Join(parts, " "), len(p.pc), reached))
			}
			res.mu.Unlock()
		}
	case pathEnd:
		if e.verdict == "infeasible" {
			w.stats.Infeasible++
		} else {
			w.stats.AssumeFalse++
		}
	case targetPanic:
		w.stats.Panics++
		w.reportViolation(p, "panic", "panic", toString(e.v)+" at "+e.where, "")
	case unwindExceeded:
		res.engineErr("unwind: " + e.msg)
	case engineError:
		res.engineErr(e.msg)
	default:
		res.engineErr(fmt.Sprintf("unexpected panic %T: %v", e, e))
	}
}

func (s *scheduler) killAllSafe() {
	defer func() { recover() }()
	s.killAll()
}

// reportViolation records a violation with a model of the current path condition.
func (w *worker) reportViolation(p *path, kind, label, msg, kf string) {
	p.violated = true
	v := Violation{Harness: w.ex.fn, Label: label, Kind: kind, Msg: msg, KF: kf,
		Decs: append([]int(nil), p.decs...), Sched: append([]int(nil), p.sched...)}
	if r := w.solver.Check(); r == Sat {
		v.Values = p.model()
	} else {
		v.Msg += fmt.Sprintf(" (no model: solver said %v)", r)
	}
	if kf != "" && w.ex.prog.opts.KnownOpen[kf] {
		w.ex.result.addKnown(kf, v)
		return
	}
	w.ex.result.addViolation(v)
}

// runInits runs init() of the configured packages, skipping the inits
// of their imports.
func (i *interpreter) runInits() {
	for _, path := range i.prog.opts.InitPkgs {
		if strings.HasSuffix(path, "...") {
			pre := strings.TrimSuffix(path, "...")
			var names []string
			for _, pk := range i.prog.ssa.AllPackages() {
				if strings.HasPrefix(pk.Pkg.Path(), pre) {
					names = append(names, pk.Pkg.Path())
				}
			}
			sort.Strings(names)
			for _, n := range names {
				i.runInit(i.prog.ssa.ImportedPackage(n))
			}
			continue
		}
		pkg := i.prog.ssa.ImportedPackage(path)
		if pkg == nil {
			panic(engineError{"init package not found: " + path})
		}
		i.runInit(pkg)
	}
}

func (i *interpreter) runInit(pkg *ssa.Package) {
	if i.initDone[pkg] {
		return
	}
	i.initDone[pkg] = true
	if f := pkg.Func("init"); f != nil {
		call(i, nil, f.Pos(), f, nil)
	}
}

func pkgPathOf(t types.Type) string {
	if n, ok := t.(*types.Named); ok && n.Obj().Pkg() != nil {
		return n.Obj().Pkg().Path()
	}
	return ""
}
