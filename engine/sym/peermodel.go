package sym

// Model of btcd's *peer.Peer, connmgr and addrmgr: recorders whose
// observable attributes are set by the harness (vpPeerSet / vpPeerGet).

import (
	"fmt"
	"go/types"

	"golang.org/x/tools/go/ssa"
)

type peerState struct {
	attrs map[string]value
	sent  []value // messages queued to the peer
}

func (i *interpreter) peerOf(p *value) *peerState {
	key := fmt.Sprintf("peer:%p", p)
	if m, ok := i.ext[key]; ok {
		return m.(*peerState)
	}
	m := &peerState{attrs: map[string]value{}}
	i.ext[key] = m
	return m
}

func (i *interpreter) callLog() map[string]int {
	if m, ok := i.ext["calllog"]; ok {
		return m.(map[string]int)
	}
	m := map[string]int{}
	i.ext["calllog"] = m
	return m
}

const peerPkg = "github.com/btcsuite/btcd/peer"

func init() {
	attr := func(name string, def func(fr *frame) value) externalFn {
		return func(fr *frame, a []value) value {
			ps := fr.i.peerOf(ptrArg(a[0]))
			if v, ok := ps.attrs[name]; ok {
				return v
			}
			return def(fr)
		}
	}
	zeroRes := func(fr *frame) value { return zeroResults(fr.fn.Signature) }
	for _, m := range []string{"Addr", "Services", "Inbound", "NA", "ID", "LastBlock", "StartingHeight", "ProtocolVersion",
		"VerAckReceived", "VersionKnown", "UserAgent", "LastAnnouncedBlock", "LastPingMicros", "LastRecv", "LastSend",
		"TimeConnected", "TimeOffset", "BytesSent", "BytesReceived", "WantsHeaders", "IsWitnessEnabled", "LocalAddr", "String"} {
		reg("(*"+peerPkg+".Peer)."+m, attr(m, zeroRes))
	}
	reg("(*"+peerPkg+".Peer).Connected", func(fr *frame, a []value) value {
		ps := fr.i.peerOf(ptrArg(a[0]))
		if v, ok := ps.attrs["Connected"]; ok {
			if b, isB := v.(bool); isB && !b {
				return false
			}
		}
		_, disc := ps.attrs["disconnected"]
		return !disc
	})
	reg("(*"+peerPkg+".Peer).Disconnect", func(fr *frame, a []value) value {
		ps := fr.i.peerOf(ptrArg(a[0]))
		n, _ := ps.attrs["disconnected"].(uint64)
		ps.attrs["disconnected"] = n + 1
		fr.i.callLog()["peer.Disconnect"]++
		return nil
	})
	reg("(*"+peerPkg+".Peer).WaitForDisconnect", func(fr *frame, a []value) value {
		ps := fr.i.peerOf(ptrArg(a[0]))
		fr.i.sched.block(func() bool { _, d := ps.attrs["disconnected"]; return d }, "WaitForDisconnect")
		return nil
	})
	reg("(*"+peerPkg+".Peer).UpdateLastBlockHeight", func(fr *frame, a []value) value {
		fr.i.peerOf(ptrArg(a[0])).attrs["LastBlock"] = a[1]
		return nil
	})
	reg("(*"+peerPkg+".Peer).UpdateLastAnnouncedBlock", func(fr *frame, a []value) value { return nil })
	record := func(name string) externalFn {
		return func(fr *frame, a []value) value {
			ps := fr.i.peerOf(ptrArg(a[0]))
			ps.sent = append(ps.sent, tuple(append([]value{name}, a[1:]...)))
			fr.i.callLog()["peer."+name]++
			return zeroResults(fr.fn.Signature)
		}
	}
	for _, m := range []string{"QueueMessage", "QueueMessageWithEncoding", "QueueInventory", "PushGetHeadersMsg", "PushGetBlocksMsg",
		"PushAddrMsg", "PushRejectMsg", "AssociateConnection", "AddKnownInventory"} {
		reg("(*"+peerPkg+".Peer)."+m, record(m))
	}
	// connmgr / addrmgr: every function is a counted no-op
	counted := func(fn *ssa.Function) externalFn {
		name := fn.Name()
		pk := fn.Pkg.Pkg.Name()
		return func(fr *frame, a []value) value {
			fr.i.callLog()[pk+"."+name]++
			return zeroResults(fr.fn.Signature)
		}
	}
	pkgExternals["github.com/btcsuite/btcd/connmgr"] = func(fn *ssa.Function) externalFn {
		if fn.Signature.Recv() != nil && fn.Name() == "ID" {
			return nil // (*ConnReq).ID is plain code
		}
		if fn.Name() == "init" {
			return nil
		}
		return counted(fn)
	}
	pkgExternals["github.com/btcsuite/btcd/addrmgr"] = func(fn *ssa.Function) externalFn {
		if fn.Name() == "init" {
			return nil
		}
		return counted(fn)
	}

	// harness access
	unwrapPtr := func(v value) *value {
		if it, ok := v.(iface); ok {
			v = it.v
		}
		return ptrArg(v)
	}
	vpExternals["vpPeerSet"] = func(fr *frame, a []value) value {
		ps := fr.i.peerOf(unwrapPtr(a[0]))
		name := a[1].(string)
		v := a[2].(iface).v
		ps.attrs[name] = v
		return nil
	}
	vpExternals["vpPeerDisconnects"] = func(fr *frame, a []value) value {
		ps := fr.i.peerOf(unwrapPtr(a[0]))
		n, _ := ps.attrs["disconnected"].(uint64)
		return int(n)
	}
	vpExternals["vpPeerSent"] = func(fr *frame, a []value) value {
		ps := fr.i.peerOf(unwrapPtr(a[0]))
		n := 0
		for _, s := range ps.sent {
			if s.(tuple)[0].(string) == a[1].(string) {
				n++
			}
		}
		return n
	}
	vpExternals["vpCalls"] = func(fr *frame, a []value) value { return fr.i.callLog()[a[0].(string)] }
}

var _ = types.Typ
