package sym

// Hash-consed SMT terms with light simplification and SMT-LIB2 printing.

import (
	"fmt"
	"math/big"
	"sort"
	"strconv"
	"strings"
)

type SortKind uint8

const (
	SBool SortKind = iota
	SBV
	SInt
)

type Sort struct {
	K SortKind
	W int // bit width for SBV
}

func (s Sort) String() string {
	switch s.K {
	case SBool:
		return "Bool"
	case SInt:
		return "Int"
	}
	return fmt.Sprintf("(_ BitVec %d)", s.W)
}

var BoolSort = Sort{K: SBool}
var IntSort = Sort{K: SInt}

func BV(w int) Sort { return Sort{K: SBV, W: w} }

type Term struct {
	id   int
	op   string // "var", "const", "uf", or SMT operator name
	sort Sort
	args []*Term
	name string   // var / uf name
	val  *big.Int // const value (unsigned for BV; signed for Int; 0/1 for Bool)
	hi   int      // extract / extension amount
	lo   int
	st   *Store
}

func (t *Term) Sort() Sort     { return t.sort }
func (t *Term) IsConst() bool  { return t.op == "const" }
func (t *Term) String() string { return t.st.inline(t, 6) }

// Store owns the hash-cons table of one worker.
type Store struct {
	tab   map[string]*Term
	next  int
	ufs   map[string]ufDecl
	path  *path // current path (for concretisation from value-level code)
	nvars int
	keybuf []byte
	splitMemo map[*Term][]*Term // bytes of a wide term, most significant first
}

type ufDecl struct {
	args []Sort
	ret  Sort
}

func NewStore() *Store {
	return &Store{tab: map[string]*Term{}, ufs: map[string]ufDecl{}}
}

func (st *Store) mk(op string, sort Sort, name string, val *big.Int, hi, lo int, args ...*Term) *Term {
	buf := st.keybuf[:0]
	buf = append(buf, op...)
	buf = append(buf, '|', byte('0'+int(sort.K)))
	buf = strconv.AppendInt(buf, int64(sort.W), 10)
	buf = append(buf, '|')
	buf = append(buf, name...)
	if val != nil {
		buf = append(buf, '#')
		if val.Sign() < 0 {
			buf = append(buf, '-')
		}
		vb := val.Bytes()
		buf = strconv.AppendInt(buf, int64(len(vb)), 10)
		buf = append(buf, ':')
		buf = append(buf, vb...)
	}
	buf = append(buf, '|')
	buf = strconv.AppendInt(buf, int64(hi), 10)
	buf = append(buf, '|')
	buf = strconv.AppendInt(buf, int64(lo), 10)
	for _, a := range args {
		buf = append(buf, ',')
		buf = strconv.AppendInt(buf, int64(a.id), 10)
	}
	st.keybuf = buf
	k := string(buf)
	if t, ok := st.tab[k]; ok {
		return t
	}
	st.next++
	t := &Term{id: st.next, op: op, sort: sort, args: args, name: name, val: val, hi: hi, lo: lo, st: st}
	st.tab[k] = t
	return t
}

func (st *Store) Var(name string, s Sort) *Term {
	return st.mk("var", s, name, nil, 0, 0)
}

func (st *Store) FreshVar(prefix string, s Sort) *Term {
	st.nvars++
	return st.Var(fmt.Sprintf("%s!%d", prefix, st.nvars), s)
}

var bigOne = big.NewInt(1)

func mask(w int) *big.Int {
	m := new(big.Int).Lsh(bigOne, uint(w))
	return m.Sub(m, bigOne)
}

func (st *Store) BVConst(v uint64, w int) *Term {
	b := new(big.Int).SetUint64(v)
	if w < 64 {
		b.And(b, mask(w))
	}
	return st.mk("const", BV(w), "", b, 0, 0)
}

func (st *Store) BVConstBig(v *big.Int, w int) *Term {
	b := new(big.Int).And(v, mask(w))
	return st.mk("const", BV(w), "", b, 0, 0)
}

func (st *Store) IntConst(v *big.Int) *Term {
	return st.mk("const", IntSort, "", new(big.Int).Set(v), 0, 0)
}

func (st *Store) Bool(b bool) *Term {
	v := big.NewInt(0)
	if b {
		v = big.NewInt(1)
	}
	return st.mk("const", BoolSort, "", v, 0, 0)
}

func (t *Term) isTrue() bool  { return t.op == "const" && t.sort.K == SBool && t.val.Sign() != 0 }
func (t *Term) isFalse() bool { return t.op == "const" && t.sort.K == SBool && t.val.Sign() == 0 }

// signed interpretation of a BV constant
func (t *Term) signed() *big.Int {
	v := new(big.Int).Set(t.val)
	if t.sort.K == SBV && v.Bit(t.sort.W-1) == 1 {
		v.Sub(v, new(big.Int).Lsh(bigOne, uint(t.sort.W)))
	}
	return v
}

func (st *Store) Not(a *Term) *Term {
	if a.op == "const" {
		return st.Bool(a.val.Sign() == 0)
	}
	if a.op == "not" {
		return a.args[0]
	}
	return st.mk("not", BoolSort, "", nil, 0, 0, a)
}

func (st *Store) And(xs ...*Term) *Term {
	var out []*Term
	seen := map[int]bool{}
	for _, x := range xs {
		if x.isFalse() {
			return x
		}
		if x.isTrue() || seen[x.id] {
			continue
		}
		if x.op == "and" {
			for _, y := range x.args {
				if !seen[y.id] {
					seen[y.id] = true
					out = append(out, y)
				}
			}
			continue
		}
		seen[x.id] = true
		out = append(out, x)
	}
	for _, x := range out {
		if x.op == "not" && seen[x.args[0].id] {
			return st.Bool(false)
		}
	}
	switch len(out) {
	case 0:
		return st.Bool(true)
	case 1:
		return out[0]
	}
	sortTerms(out)
	return st.mk("and", BoolSort, "", nil, 0, 0, out...)
}

func (st *Store) Or(xs ...*Term) *Term {
	var out []*Term
	seen := map[int]bool{}
	for _, x := range xs {
		if x.isTrue() {
			return x
		}
		if x.isFalse() || seen[x.id] {
			continue
		}
		if x.op == "or" {
			for _, y := range x.args {
				if !seen[y.id] {
					seen[y.id] = true
					out = append(out, y)
				}
			}
			continue
		}
		seen[x.id] = true
		out = append(out, x)
	}
	for _, x := range out {
		if x.op == "not" && seen[x.args[0].id] {
			return st.Bool(true)
		}
	}
	switch len(out) {
	case 0:
		return st.Bool(false)
	case 1:
		return out[0]
	}
	sortTerms(out)
	return st.mk("or", BoolSort, "", nil, 0, 0, out...)
}

func sortTerms(ts []*Term) {
	sort.Slice(ts, func(i, j int) bool { return ts[i].id < ts[j].id })
}

func (st *Store) Implies(a, b *Term) *Term { return st.Or(st.Not(a), b) }

func (st *Store) Ite(c, a, b *Term) *Term {
	if c.isTrue() {
		return a
	}
	if c.isFalse() {
		return b
	}
	if a == b {
		return a
	}
	if a.sort.K == SBool {
		if a.isTrue() && b.isFalse() {
			return c
		}
		if a.isFalse() && b.isTrue() {
			return st.Not(c)
		}
	}
	return st.mk("ite", a.sort, "", nil, 0, 0, c, a, b)
}

func (st *Store) Eq(a, b *Term) *Term {
	if a == b {
		return st.Bool(true)
	}
	if a.sort != b.sort {
		panic(engineError{fmt.Sprintf("Eq: sort mismatch %v vs %v (%v, %v)", a.sort, b.sort, a, b)})
	}
	if a.op == "const" && b.op == "const" {
		return st.Bool(a.val.Cmp(b.val) == 0)
	}
	if a.sort.K == SBool {
		if a.op == "const" {
			a, b = b, a
		}
		if b.isTrue() {
			return a
		}
		if b.isFalse() {
			return st.Not(a)
		}
	}
	// injective hash UFs: H(x) = H(y)  <=>  x = y ; different H never collide
	if a.op == "uf" && b.op == "uf" && strings.HasPrefix(a.name, "H_") && strings.HasPrefix(b.name, "H_") {
		if a.name != b.name {
			return st.Bool(false)
		}
		return st.Eq(a.args[0], b.args[0])
	}
	// equality of concatenations splits at the boundary (resolves
	// concrete segments that differ without the solver)
	if a.sort.K == SBV && (a.op == "concat" || b.op == "concat") {
		c, o := a, b
		if c.op != "concat" {
			c, o = b, a
		}
		lw := c.args[1].sort.W
		w := c.sort.W
		oh := st.Extract(o, w-1, lw)
		ol := st.Extract(o, lw-1, 0)
		// only when the other side splits cleanly too (constant or concat at the same boundary)
		wraps := func(t *Term) bool { return t.op == "extract" && t.args[0] == o }
		if (oh.op != "extract" && ol.op != "extract") || o.op == "const" {
			// the other side splits cleanly at the same boundary
			lo := st.Eq(c.args[1], ol)
			if lo.isFalse() {
				return lo
			}
			return st.And(st.Eq(c.args[0], oh), lo)
		}
		if !wraps(oh) && !wraps(ol) {
			// different piece boundaries: probe the pieces; keep the split
			// only when it decides the equality (or most of it), otherwise
			// one atom over the whole words is cheaper for the solver
			lo := st.Eq(c.args[1], ol)
			if lo.isFalse() {
				return lo
			}
			hi := st.Eq(c.args[0], oh)
			if hi.isFalse() {
				return hi
			}
			if lo.isTrue() {
				return hi
			}
			if hi.isTrue() {
				return lo
			}
		}
	}
	if a.id > b.id {
		a, b = b, a
	}
	// (= (ite c k1 k2) k) with constants
	for _, p := range [][2]*Term{{a, b}, {b, a}} {
		x, k := p[0], p[1]
		if x.op == "ite" && k.op == "const" && x.args[1].op == "const" && x.args[2].op == "const" {
			e1 := x.args[1].val.Cmp(k.val) == 0
			e2 := x.args[2].val.Cmp(k.val) == 0
			switch {
			case e1 && e2:
				return st.Bool(true)
			case e1:
				return x.args[0]
			case e2:
				return st.Not(x.args[0])
			default:
				return st.Bool(false)
			}
		}
	}
	return st.mk("=", BoolSort, "", nil, 0, 0, a, b)
}

// RawEq builds an equality without the injective-hash / concat rewrites
// (used for the injectivity axioms themselves).
func (st *Store) RawEq(a, b *Term) *Term {
	if a == b {
		return st.Bool(true)
	}
	if a.id > b.id {
		a, b = b, a
	}
	return st.mk("=", BoolSort, "", nil, 0, 0, a, b)
}

// bvBin builds a binary bit-vector operation with constant folding.
func (st *Store) bvBin(op string, a, b *Term) *Term {
	if a.sort != b.sort {
		panic(engineError{fmt.Sprintf("%s: sort mismatch %v vs %v", op, a.sort, b.sort)})
	}
	w := a.sort.W
	if a.op == "const" && b.op == "const" {
		if r := foldBV(op, a, b, w); r != nil {
			return st.BVConstBig(r, w)
		}
	}
	isZero := func(t *Term) bool { return t.op == "const" && t.val.Sign() == 0 }
	isOnes := func(t *Term) bool { return t.op == "const" && t.val.Cmp(mask(w)) == 0 }
	switch op {
	case "bvadd", "bvor", "bvxor":
		if isZero(a) {
			return b
		}
		if isZero(b) {
			return a
		}
		if op == "bvor" && a == b {
			return a
		}
		if op == "bvor" {
			if r := st.orPieces(a, b); r != nil {
				return r
			}
		}
		if op == "bvxor" && a == b {
			return st.BVConst(0, w)
		}
		if op == "bvor" && (isOnes(a) || isOnes(b)) {
			return st.BVConstBig(mask(w), w)
		}
		// (x + c1) + c2
		if op == "bvadd" && b.op == "const" && a.op == "bvadd" && a.args[1].op == "const" {
			return st.bvBin("bvadd", a.args[0], st.bvBin("bvadd", a.args[1], b))
		}
		if op == "bvadd" && a.op == "const" {
			a, b = b, a
		}
	case "bvsub":
		if isZero(b) {
			return a
		}
		if a == b {
			return st.BVConst(0, w)
		}
		if b.op == "const" {
			neg := new(big.Int).Sub(new(big.Int).Lsh(bigOne, uint(w)), b.val)
			return st.bvBin("bvadd", a, st.BVConstBig(neg, w))
		}
	case "bvand":
		if isZero(a) || isZero(b) {
			return st.BVConst(0, w)
		}
		if isOnes(a) {
			return b
		}
		if isOnes(b) {
			return a
		}
		if a == b {
			return a
		}
	case "bvmul":
		if isZero(a) || isZero(b) {
			return st.BVConst(0, w)
		}
		if a.op == "const" && a.val.Cmp(bigOne) == 0 {
			return b
		}
		if b.op == "const" && b.val.Cmp(bigOne) == 0 {
			return a
		}
	case "bvshl", "bvlshr", "bvashr":
		if isZero(b) {
			return a
		}
	case "bvudiv", "bvsdiv":
		if b.op == "const" && b.val.Cmp(bigOne) == 0 {
			return a
		}
	}
	return st.mk(op, a.sort, "", nil, 0, 0, a, b)
}

func foldBV(op string, a, b *Term, w int) *big.Int {
	x, y := a.val, b.val
	r := new(big.Int)
	switch op {
	case "bvadd":
		return r.Add(x, y)
	case "bvsub":
		return r.Sub(x, y).Add(r, new(big.Int).Lsh(bigOne, uint(w)))
	case "bvmul":
		return r.Mul(x, y)
	case "bvand":
		return r.And(x, y)
	case "bvor":
		return r.Or(x, y)
	case "bvxor":
		return r.Xor(x, y)
	case "bvudiv":
		if y.Sign() == 0 {
			return mask(w)
		}
		return r.Quo(x, y)
	case "bvurem":
		if y.Sign() == 0 {
			return r.Set(x)
		}
		return r.Rem(x, y)
	case "bvsdiv":
		if y.Sign() == 0 {
			return nil
		}
		q := r.Quo(a.signed(), b.signed())
		return q.Add(q, new(big.Int).Lsh(bigOne, uint(w+1)))
	case "bvsrem":
		if y.Sign() == 0 {
			return nil
		}
		q := r.Rem(a.signed(), b.signed())
		return q.Add(q, new(big.Int).Lsh(bigOne, uint(w+1)))
	case "bvshl":
		if y.Cmp(big.NewInt(int64(w))) >= 0 {
			return r
		}
		return r.Lsh(x, uint(y.Uint64()))
	case "bvlshr":
		if y.Cmp(big.NewInt(int64(w))) >= 0 {
			return r
		}
		return r.Rsh(x, uint(y.Uint64()))
	case "bvashr":
		s := a.signed()
		sh := uint(w)
		if y.Cmp(big.NewInt(int64(w))) < 0 {
			sh = uint(y.Uint64())
		}
		r.Rsh(s, sh)
		return r.Add(r, new(big.Int).Lsh(bigOne, uint(w+1)))
	}
	return nil
}

func (st *Store) bvCmp(op string, a, b *Term) *Term {
	if a.sort != b.sort {
		panic(engineError{fmt.Sprintf("%s: sort mismatch %v vs %v", op, a.sort, b.sort)})
	}
	if a.op == "const" && b.op == "const" {
		var c int
		if op[2] == 's' {
			c = a.signed().Cmp(b.signed())
		} else {
			c = a.val.Cmp(b.val)
		}
		switch op {
		case "bvult", "bvslt":
			return st.Bool(c < 0)
		case "bvule", "bvsle":
			return st.Bool(c <= 0)
		}
	}
	if a == b {
		return st.Bool(op == "bvule" || op == "bvsle")
	}
	return st.mk(op, BoolSort, "", nil, 0, 0, a, b)
}

func (st *Store) BVNot(a *Term) *Term {
	if a.op == "const" {
		return st.BVConstBig(new(big.Int).Xor(a.val, mask(a.sort.W)), a.sort.W)
	}
	return st.mk("bvnot", a.sort, "", nil, 0, 0, a)
}

func (st *Store) BVNeg(a *Term) *Term {
	return st.bvBin("bvsub", st.BVConst(0, a.sort.W), a)
}

func (st *Store) Extract(a *Term, hi, lo int) *Term {
	if lo == 0 && hi == a.sort.W-1 {
		return a
	}
	w := hi - lo + 1
	if a.op == "const" {
		r := new(big.Int).Rsh(a.val, uint(lo))
		return st.BVConstBig(r, w)
	}
	if a.op == "extract" {
		return st.Extract(a.args[0], hi+a.lo, lo+a.lo)
	}
	if a.op == "bvlshr" && a.args[1].op == "const" && a.args[1].val.IsInt64() {
		c := int(a.args[1].val.Int64())
		if hi+c < a.sort.W {
			return st.Extract(a.args[0], hi+c, lo+c)
		}
	}
	if a.op == "bvshl" && a.args[1].op == "const" && a.args[1].val.IsInt64() {
		c := int(a.args[1].val.Int64())
		if lo >= c && c < a.sort.W {
			return st.Extract(a.args[0], hi-c, lo-c)
		}
		if hi < c {
			return st.BVConst(0, w)
		}
	}
	if a.op == "bvor" || a.op == "bvand" || a.op == "bvxor" {
		// push extraction through bitwise ops when it simplifies both sides to small terms
		l := st.Extract(a.args[0], hi, lo)
		r := st.Extract(a.args[1], hi, lo)
		if (l.op == "const" || r.op == "const") || (l.op != "extract" && r.op != "extract") {
			return st.bvBin(a.op, l, r)
		}
	}
	if a.op == "concat" {
		// args[0] is the high part
		lw := a.args[1].sort.W
		if hi < lw {
			return st.Extract(a.args[1], hi, lo)
		}
		if lo >= lw {
			return st.Extract(a.args[0], hi-lw, lo-lw)
		}
	}
	if (a.op == "zero_extend" || a.op == "sign_extend") && hi < a.args[0].sort.W {
		return st.Extract(a.args[0], hi, lo)
	}
	if a.op == "zero_extend" && lo >= a.args[0].sort.W {
		return st.BVConst(0, w)
	}
	return st.mk("extract", BV(w), "", nil, hi, lo, a)
}

func (st *Store) Concat(hiT, loT *Term) *Term {
	if hiT.op == "const" && loT.op == "const" {
		r := new(big.Int).Lsh(hiT.val, uint(loT.sort.W))
		r.Or(r, loT.val)
		return st.BVConstBig(r, hiT.sort.W+loT.sort.W)
	}
	// concat(extract(x,h,m+1), extract(x,m,l)) = extract(x,h,l)
	if hiT.op == "extract" && loT.op == "extract" && hiT.args[0] == loT.args[0] && hiT.lo == loT.hi+1 {
		return st.Extract(hiT.args[0], hiT.hi, loT.lo)
	}
	// concat(concat(X, e1), e2) with adjacent extracts e1,e2 -> concat(X, e12)
	if hiT.op == "concat" && loT.op == "extract" {
		in := hiT.args[1]
		if in.op == "extract" && in.args[0] == loT.args[0] && in.lo == loT.hi+1 {
			return st.Concat(hiT.args[0], st.Extract(in.args[0], in.hi, loT.lo))
		}
	}
	if hiT.op == "const" && hiT.val.Sign() == 0 {
		return st.ZeroExt(loT, hiT.sort.W)
	}
	return st.mk("concat", BV(hiT.sort.W+loT.sort.W), "", nil, 0, 0, hiT, loT)
}

func (st *Store) ZeroExt(a *Term, by int) *Term {
	if by == 0 {
		return a
	}
	if a.op == "const" {
		return st.BVConstBig(a.val, a.sort.W+by)
	}
	if a.op == "zero_extend" {
		return st.ZeroExt(a.args[0], by+a.hi)
	}
	return st.mk("zero_extend", BV(a.sort.W+by), "", nil, by, 0, a)
}

func (st *Store) SignExt(a *Term, by int) *Term {
	if by == 0 {
		return a
	}
	if a.op == "const" {
		return st.BVConstBig(new(big.Int).Add(a.signed(), new(big.Int).Lsh(bigOne, uint(a.sort.W+by+1))), a.sort.W+by)
	}
	return st.mk("sign_extend", BV(a.sort.W+by), "", nil, by, 0, a)
}

// Int (unbounded) operations
func (st *Store) IntBin(op string, a, b *Term) *Term {
	if a.op == "const" && b.op == "const" {
		switch op {
		case "+":
			return st.IntConst(new(big.Int).Add(a.val, b.val))
		case "-":
			return st.IntConst(new(big.Int).Sub(a.val, b.val))
		case "*":
			return st.IntConst(new(big.Int).Mul(a.val, b.val))
		}
	}
	return st.mk(op, IntSort, "", nil, 0, 0, a, b)
}

func (st *Store) IntCmp(op string, a, b *Term) *Term {
	if a.op == "const" && b.op == "const" {
		c := a.val.Cmp(b.val)
		switch op {
		case "<":
			return st.Bool(c < 0)
		case "<=":
			return st.Bool(c <= 0)
		case ">":
			return st.Bool(c > 0)
		case ">=":
			return st.Bool(c >= 0)
		}
	}
	return st.mk(op, BoolSort, "", nil, 0, 0, a, b)
}

// UF application.
func (st *Store) Apply(name string, ret Sort, args ...*Term) *Term {
	if d, ok := st.ufs[name]; ok {
		if len(d.args) != len(args) {
			panic(engineError{"uf arity mismatch " + name})
		}
	} else {
		var as []Sort
		for _, a := range args {
			as = append(as, a.sort)
		}
		st.ufs[name] = ufDecl{as, ret}
	}
	return st.mk("uf", ret, name, nil, 0, 0, args...)
}

// ---- printing ----

func constSMT(t *Term) string {
	switch t.sort.K {
	case SBool:
		if t.val.Sign() != 0 {
			return "true"
		}
		return "false"
	case SInt:
		if t.val.Sign() < 0 {
			return "(- " + new(big.Int).Neg(t.val).String() + ")"
		}
		return t.val.String()
	}
	if t.sort.W%4 == 0 {
		return fmt.Sprintf("#x%0*s", t.sort.W/4, t.val.Text(16))
	}
	return fmt.Sprintf("#b%0*s", t.sort.W, t.val.Text(2))
}

func smtName(n string) string { return "|" + n + "|" }

// head returns the operator text of a compound term.
func (t *Term) head() string {
	switch t.op {
	case "extract":
		return fmt.Sprintf("(_ extract %d %d)", t.hi, t.lo)
	case "zero_extend", "sign_extend":
		return fmt.Sprintf("(_ %s %d)", t.op, t.hi)
	case "uf":
		return smtName(t.name)
	}
	return t.op
}

// inline prints a term as a tree to a limited depth (debug only).
func (st *Store) inline(t *Term, depth int) string {
	switch t.op {
	case "const":
		return constSMT(t)
	case "var":
		return t.name
	}
	if depth == 0 {
		return fmt.Sprintf("t%d", t.id)
	}
	var sb strings.Builder
	sb.WriteByte('(')
	sb.WriteString(t.head())
	for _, a := range t.args {
		sb.WriteByte(' ')
		sb.WriteString(st.inline(a, depth-1))
	}
	sb.WriteByte(')')
	return sb.String()
}

// vars collects the free variables of t.
func (t *Term) collectVars(seen map[int]bool, out *[]*Term) {
	if seen[t.id] {
		return
	}
	seen[t.id] = true
	if t.op == "var" {
		*out = append(*out, t)
	}
	for _, a := range t.args {
		a.collectVars(seen, out)
	}
}


// ---- recognition of values assembled from shifted pieces ----

type piece struct {
	t   *Term
	off int
}

// pieces decomposes t (width W) into non-overlapping placed parts with
// zeros elsewhere; ok=false if t is not of that shape.
func (st *Store) pieces(t *Term) ([]piece, bool) {
	switch t.op {
	case "const":
		if t.val.Sign() == 0 {
			return nil, true
		}
		return nil, false
	case "zero_extend":
		sub, ok := st.pieces(t.args[0])
		if ok && len(sub) > 0 {
			return sub, true
		}
		return []piece{{t.args[0], 0}}, true
	case "bvshl":
		if t.args[1].op != "const" || !t.args[1].val.IsInt64() {
			return nil, false
		}
		c := int(t.args[1].val.Int64())
		sub, ok := st.pieces(t.args[0])
		if !ok {
			return nil, false
		}
		var out []piece
		for _, p := range sub {
			if p.off+c+p.t.sort.W > t.sort.W {
				return nil, false
			}
			out = append(out, piece{p.t, p.off + c})
		}
		return out, true
	case "concat":
		// treat as atomic full-width piece
		return []piece{{t, 0}}, true
	}
	return nil, false
}

func (st *Store) orPieces(a, b *Term) *Term {
	shaped := func(t *Term) bool { return t.op == "zero_extend" || t.op == "bvshl" }
	if !shaped(a) && !shaped(b) {
		return nil
	}
	pa, oka := st.pieces(a)
	pb, okb := st.pieces(b)
	if !oka || !okb {
		return nil
	}
	all := append(append([]piece(nil), pa...), pb...)
	sort.Slice(all, func(i, j int) bool { return all[i].off < all[j].off })
	W := a.sort.W
	var res *Term
	cur := 0
	for _, p := range all {
		if p.off < cur {
			return nil // overlap
		}
		if p.off > cur {
			z := st.BVConst(0, p.off-cur)
			if res == nil {
				res = z
			} else {
				res = st.Concat(z, res)
			}
		}
		if res == nil {
			res = p.t
		} else {
			res = st.Concat(p.t, res)
		}
		cur = p.off + p.t.sort.W
	}
	if res == nil {
		return st.BVConst(0, W)
	}
	if cur < W {
		res = st.ZeroExt(res, W-cur)
	}
	return res
}
