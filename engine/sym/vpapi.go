package sym

// The harness API (vp* functions).  Natively these are ordinary Go
// functions reading a replay table; here they create symbolic inputs,
// assumptions and assertions.

import (
	"fmt"
	"go/types"
	"math/big"
	"strings"
)

var vpExternals = map[string]externalFn{}

func init() {
	for name, e := range map[string]externalFn{
		"vpBool": func(fr *frame, a []value) value { return fr.i.vpScalar(a[0].(string), "bool", BoolSort, types.Typ[types.Bool]) },
		"vpU8":   func(fr *frame, a []value) value { return fr.i.vpScalar(a[0].(string), "u8", BV(8), types.Typ[types.Uint8]) },
		"vpU16":  func(fr *frame, a []value) value { return fr.i.vpScalar(a[0].(string), "u16", BV(16), types.Typ[types.Uint16]) },
		"vpU32":  func(fr *frame, a []value) value { return fr.i.vpScalar(a[0].(string), "u32", BV(32), types.Typ[types.Uint32]) },
		"vpU64":  func(fr *frame, a []value) value { return fr.i.vpScalar(a[0].(string), "u64", BV(64), types.Typ[types.Uint64]) },
		"vpI32":  func(fr *frame, a []value) value { return fr.i.vpScalar(a[0].(string), "i32", BV(32), types.Typ[types.Int32]) },
		"vpI64":  func(fr *frame, a []value) value { return fr.i.vpScalar(a[0].(string), "i64", BV(64), types.Typ[types.Int64]) },
		"vpInt":  func(fr *frame, a []value) value { return fr.i.vpScalar(a[0].(string), "i64", BV(64), types.Typ[types.Int]) },
		"vpRange": func(fr *frame, a []value) value {
			return fr.i.vpRange(a[0].(string), a[1].(int), a[2].(int))
		},
		"vpBytes": func(fr *frame, a []value) value {
			return fr.i.vpBytes(a[0].(string), a[1].(int))
		},
		"vpAssumeSat": func(fr *frame, a []value) value {
			// an assumption the harness guarantees to be satisfiable on every
			// feasible path (a predicate of a fresh value): no feasibility query
			switch c := a[0].(type) {
			case bool:
				if !c {
					panic(pathEnd{"assume-false", ""})
				}
			case *Term:
				fr.i.flushAsserts()
				fr.i.p.assume(c, false)
			}
			return nil
		},
		"vpAssume": func(fr *frame, a []value) value {
			fr.i.vpAssume(a[0])
			return nil
		},
		"vpAssert": func(fr *frame, a []value) value {
			fr.i.vpAssert(fr, a[0], a[1].(string), "", nil)
			return nil
		},
		"vpAssertKF": func(fr *frame, a []value) value {
			fr.i.vpAssert(fr, a[0], a[1].(string), a[2].(string), a[3])
			return nil
		},
		"vpReach": func(fr *frame, a []value) value {
			fr.i.p.reached[a[0].(string)] = true
			return nil
		},
		"vpNote": func(fr *frame, a []value) value {
			fr.i.p.notes = append(fr.i.p.notes, a[0].(string))
			return nil
		},
		"vpOpt": func(fr *frame, a []value) value {
			fr.i.vpOpt(a[0].(string), a[1].(int))
			return nil
		},
		"vpParam": func(fr *frame, a []value) value {
			if v, ok := fr.i.prog.opts.Params[a[0].(string)]; ok {
				return v
			}
			return a[1].(int)
		},
		"vpQuiesce": func(fr *frame, a []value) value {
			fr.i.sched.quiesce()
			return nil
		},
		"vpSymbolic": func(fr *frame, a []value) value { return true },
		"vpIsSym": func(fr *frame, a []value) value {
			_, ok := a[0].(iface).v.(*Term)
			return ok
		},
		"vpPrint": func(fr *frame, a []value) value {
			if fr.i.trace {
				fmt.Println("vpPrint:", toString(a[0]))
			}
			return nil
		},
		// uninterpreted functions over 64-bit words
		"vpUF": func(fr *frame, a []value) value {
			return fr.i.vpUF(a[0].(string), a[1].([]value), BV(64), types.Typ[types.Uint64])
		},
		"vpUFBool": func(fr *frame, a []value) value {
			return fr.i.vpUF(a[0].(string), a[1].([]value), BoolSort, types.Typ[types.Bool])
		},
		// vpHashUF(name, parts ...[]byte) [32]byte : injective uninterpreted hash
		"vpHashUF": func(fr *frame, a []value) value {
			return fr.i.vpHashUF(a[0].(string), a[1].([]value))
		},
		"vpAnd":     func(fr *frame, a []value) value { return fr.i.boolAnd(a[0], a[1]) },
		"vpOr":      func(fr *frame, a []value) value { return fr.i.boolOr(a[0], a[1]) },
		"vpNot":     func(fr *frame, a []value) value { return fr.i.boolNot(a[0]) },
		"vpImplies": func(fr *frame, a []value) value { return fr.i.boolOr(fr.i.boolNot(a[0]), a[1]) },
		"vpEqBytes": func(fr *frame, a []value) value { return fr.i.bytesEqual(a[0].([]value), a[1].([]value)) },
		"vpPowOK": func(fr *frame, a []value) value {
			p := ptrArg(a[0])
			return fr.i.powOK((*p).(structure))
		},
		"vpIte32": func(fr *frame, a []value) value {
			return fr.i.ite(a[0], a[1], a[2], types.Typ[types.Uint32])
		},
		"vpIte64": func(fr *frame, a []value) value {
			return fr.i.ite(a[0], a[1], a[2], types.Typ[types.Uint64])
		},
		"vpConcretize": func(fr *frame, a []value) value {
			return int(fr.i.asInt(a[0], "vpConcretize"))
		},
	} {
		vpExternals[name] = e
	}
}

func (i *interpreter) ite(c, a, b value, t types.Type) value {
	switch c := c.(type) {
	case bool:
		if c {
			return a
		}
		return b
	case *Term:
		st := i.p.st()
		return termToValue(st.Ite(c, st.lift(a), st.lift(b)), t)
	}
	panic(engineError{"ite"})
}

func (i *interpreter) logVar(label, kind string, t *Term, conc *big.Int, n int) {
	p := i.p
	seq := p.seq[label]
	p.seq[label]++
	p.vars = append(p.vars, vpVar{Label: label, Seq: seq, Kind: kind, T: t, Conc: conc, N: n})
}

func (i *interpreter) vpScalar(label, kind string, s Sort, typ types.Type) value {
	p := i.p
	seq := p.seq[label]
	t := p.st().Var(fmt.Sprintf("%s#%d", label, seq), s)
	i.logVar(label, kind, t, nil, 0)
	return t
}

func (i *interpreter) vpRange(label string, lo, hi int) value {
	if hi < lo {
		panic(pathEnd{"assume-false", "empty range " + label})
	}
	k := i.p.choose(hi-lo+1, nil, "vpRange "+label)
	i.logVar(label, "range", nil, big.NewInt(int64(lo+k)), 0)
	return lo + k
}

func (i *interpreter) vpBytes(label string, n int) value {
	p := i.p
	seq := p.seq[label]
	t := p.st().Var(fmt.Sprintf("%s#%d", label, seq), BV(8*n))
	i.logVar(label, "bytes", t, nil, n)
	return i.splitBytes(t, n)
}

func (i *interpreter) vpAssume(c value) {
	switch c := c.(type) {
	case bool:
		if !c {
			panic(pathEnd{"assume-false", ""})
		}
	case *Term:
		i.flushAsserts()
		i.p.assume(c, true)
	default:
		panic(engineError{fmt.Sprintf("vpAssume(%T)", c)})
	}
}

// pendingAssert is an obligation whose discharge has been deferred so
// that several can be decided by one query.
type pendingAssert struct {
	c     *Term
	label string
	pos   string
}

// flushAsserts discharges all pending obligations.  It must run before
// anything is added to the path condition that is not an exhaustive
// case split (vpAssume), and at the end of the path.
func (i *interpreter) flushAsserts() {
	p := i.p
	if len(p.pending) == 0 {
		return
	}
	pend := p.pending
	p.pending = nil
	w := p.w
	res := w.ex.result
	st := p.st()
	var cs []*Term
	for _, a := range pend {
		cs = append(cs, a.c)
	}
	all := st.And(cs...)
	w.stats.PropQueries++
	switch w.solver.Check(st.Not(all)) {
	case Unsat:
		w.stats.PropUnsat++
		res.mu.Lock()
		for _, a := range pend {
			res.AssertsOK[a.label]++
		}
		if len(res.Samples) < 8 {
			res.Samples = append(res.Samples, fmt.Sprintf("%d obligations (%s ...): pc(%d conjuncts) AND NOT(conj) => unsat", len(pend), pend[0].label, len(p.pc)))
		}
		res.mu.Unlock()
		p.addPCnoSolver(all)
		return
	}
	// some obligation fails (or unknown): decide them one by one
	w.stats.PropQueries--
	for _, a := range pend {
		i.dischargeNow(a.c, a.label, a.pos, "", nil)
	}
}

// vpAssert records / discharges one proof obligation.
func (i *interpreter) vpAssert(fr *frame, c value, label, kf string, kfCond value) {
	p := i.p
	w := p.w
	res := w.ex.result
	p.reached["assert:"+label] = true
	st := p.st()
	var ct *Term
	switch c := c.(type) {
	case bool:
		if c {
			w.stats.PropConcrete++
			res.mu.Lock()
			res.AssertsOK[label]++
			res.mu.Unlock()
			return
		}
		ct = st.Bool(false)
	case *Term:
		ct = c
	default:
		panic(engineError{fmt.Sprintf("vpAssert(%T)", c)})
	}
	pos := "?"
	if fr.caller != nil {
		pos = fr.caller.pos()
	}
	if kf == "" && !ct.isFalse() && !i.prog.opts.NoDefer {
		if v, ok := p.decided(ct); ok && v {
			w.stats.PropConcrete++
			return
		}
		p.pending = append(p.pending, pendingAssert{ct, label, pos})
		return
	}
	i.flushAsserts()
	i.dischargeNow(ct, label, pos, kf, kfCond)
}

func (i *interpreter) dischargeNow(ct *Term, label, pos, kf string, kfCond value) {
	p := i.p
	w := p.w
	res := w.ex.result
	st := p.st()
	neg := st.Not(ct)
	w.stats.PropQueries++
	r := w.solver.Check(neg)
	switch r {
	case Unsat:
		w.stats.PropUnsat++
		res.mu.Lock()
		res.AssertsOK[label]++
		if len(res.Samples) < 8 {
			res.Samples = append(res.Samples, fmt.Sprintf("%s: pc(%d conjuncts) AND NOT %s  => unsat", label, len(p.pc), clip(ct.String(), 160)))
		}
		res.mu.Unlock()
		return
	case Unknown:
		w.stats.PropUnknown++
		res.engineErr("solver unknown on property query " + label)
		return
	}
	w.stats.PropSat++
	// violation; split by known-finding condition when given
	if kf != "" && w.ex.prog.opts.KnownOpen[kf] {
		var kt *Term
		switch k := kfCond.(type) {
		case bool:
			kt = st.Bool(k)
		case *Term:
			kt = k
		}
		if w.solver.Check(neg, kt) == Sat {
			v := Violation{Harness: w.ex.fn, Label: label, Kind: "assert", KF: kf, Decs: append([]int(nil), p.decs...),
				Sched: append([]int(nil), p.sched...), Msg: "at " + pos}
			v.Values = p.model()
			res.addKnown(kf, v)
		}
		if w.solver.Check(neg, st.Not(kt)) == Sat {
			v := Violation{Harness: w.ex.fn, Label: label, Kind: "assert", Decs: append([]int(nil), p.decs...),
				Sched: append([]int(nil), p.sched...), Msg: "at " + pos + " (outside known finding " + kf + ")"}
			v.Values = p.model()
			res.addViolation(v)
		}
	} else {
		w.solver.Check(neg)
		v := Violation{Harness: w.ex.fn, Label: label, Kind: "assert", Decs: append([]int(nil), p.decs...),
			Sched: append([]int(nil), p.sched...), Msg: "at " + pos}
		v.Values = p.model()
		res.addViolation(v)
	}
	// continue under the assumption that the assertion holds
	p.assume(ct, true)
}

func clip(s string, n int) string {
	if len(s) > n {
		return s[:n] + "..."
	}
	return s
}

func (i *interpreter) vpOpt(name string, v int) {
	switch name {
	case "maporder":
		i.p.mapOrder = v == 1
		i.p.globalOrder = v == 2
	case "schedall":
		i.p.schedAll = v != 0
	case "preempt":
		i.p.preempt = v
	case "timers":
		i.sched.timerBudget = v
	case "timed":
		i.sched.timed = v != 0
	case "timestep":
		i.p.timeStep = v
	case "clock":
		i.p.concreteClock = v != 0
	case "blocktime":
		// CheckBlockSanity judges the header's timestamp against the local
		// clock first (a per-block free boolean) and stops there when it fails
		i.ext["opt:blocktime"] = v != 0
	default:
		if strings.HasPrefix(name, "real:") {
			// run the real code of a function that is normally replaced by a model
			if i.realFns == nil {
				i.realFns = map[string]bool{}
			}
			i.realFns[strings.TrimPrefix(name, "real:")] = v != 0
			return
		}
		panic(engineError{"vpOpt: unknown option " + name})
	}
}

// vpUF applies an uninterpreted function to word arguments.
func (i *interpreter) vpUF(name string, args []value, ret Sort, typ types.Type) value {
	st := i.p.st()
	var ts []*Term
	for _, a := range args {
		ts = append(ts, st.lift(a))
	}
	return termToValue(st.Apply("uf_"+name, ret, ts...), typ)
}

// vpHashUF models a collision-free hash: UF from the concatenated
// argument bytes to 256 bits, with injectivity instantiated against
// every earlier application of the same function on this path.
func (i *interpreter) vpHashUF(name string, parts []value) value {
	var all []value
	for _, p := range parts {
		all = append(all, p.([]value)...)
	}
	return array(i.hashUF(name, all))
}

func (i *interpreter) hashUF(name string, bytes []value) []value {
	st := i.p.st()
	if len(bytes) == 0 {
		panic(engineError{"hashUF of empty input"})
	}
	arg := i.concatBytes(bytes)
	fname := fmt.Sprintf("H_%s_%d", name, len(bytes))
	app := st.Apply(fname, BV(256), arg)
	for _, prev := range i.p.ufApps[fname] {
		if prev == app {
			// seen on this path: its axioms are already in the path condition
			return i.splitBytes(app, 32)
		}
	}
	// The axioms (injectivity against every other application, different
	// functions never collide, no digest is zero) are instantiated by the
	// solver layer when the application first reaches the solver; the
	// simplifier already decides whole-word comparisons (H(a)=H(b) <=> a=b).
	i.p.ufApps[fname] = append(i.p.ufApps[fname], app)
	i.p.learn(st.Not(st.Eq(app, st.BVConst(0, 256))))
	return i.splitBytes(app, 32)
}
