package sym

// Models of sync, sync/atomic and time.

import (
	"fmt"
	"go/token"
	"go/types"
)

const tokenLSS = token.LSS

// fieldIndex returns the index of a named field of a struct type.
func fieldIndex(t types.Type, name string) int {
	st := t.Underlying().(*types.Struct)
	for k := 0; k < st.NumFields(); k++ {
		if st.Field(k).Name() == name {
			return k
		}
	}
	panic(engineError{fmt.Sprintf("no field %s in %v", name, t)})
}

// per-path model state keyed by the address of the primitive
type mutexState struct {
	locked  bool
	readers int
	owner   int
}

func (i *interpreter) mutexOf(p *value) *mutexState {
	key := fmt.Sprintf("mu:%p", p)
	if m, ok := i.ext[key]; ok {
		return m.(*mutexState)
	}
	m := &mutexState{}
	i.ext[key] = m
	return m
}

type wgState struct{ n int }

func (i *interpreter) wgOf(p *value) *wgState {
	key := fmt.Sprintf("wg:%p", p)
	if m, ok := i.ext[key]; ok {
		return m.(*wgState)
	}
	m := &wgState{}
	i.ext[key] = m
	return m
}

type condState struct {
	waiters []*condWaiter
}
type condWaiter struct{ woken bool }

func (i *interpreter) condOf(p *value) *condState {
	key := fmt.Sprintf("cond:%p", p)
	if m, ok := i.ext[key]; ok {
		return m.(*condState)
	}
	m := &condState{}
	i.ext[key] = m
	return m
}

func ptrArg(a value) *value {
	p := a.(*value)
	if p == nil {
		panic(targetPanic{v: runtimeErr("invalid memory address or nil pointer dereference")})
	}
	return p
}

func init() {
	// ---- Mutex ----
	lock := func(fr *frame, a []value) value {
		p := ptrArg(a[0])
		s := fr.i.sched
		s.yield("Mutex.Lock")
		m := fr.i.mutexOf(p)
		s.block(func() bool { return !m.locked && m.readers == 0 }, "Mutex.Lock")
		m.locked = true
		m.owner = s.cur.id
		return nil
	}
	unlock := func(fr *frame, a []value) value {
		p := ptrArg(a[0])
		m := fr.i.mutexOf(p)
		if !m.locked {
			panic(targetPanic{v: runtimeErr("sync: unlock of unlocked mutex")})
		}
		m.locked = false
		fr.i.sched.yield("Mutex.Unlock")
		return nil
	}
	reg("(*sync.Mutex).Lock", lock)
	reg("(*sync.Mutex).Unlock", unlock)
	reg("(*sync.Mutex).TryLock", func(fr *frame, a []value) value {
		m := fr.i.mutexOf(ptrArg(a[0]))
		if m.locked || m.readers > 0 {
			return false
		}
		m.locked = true
		return true
	})
	reg("(*sync.RWMutex).Lock", lock)
	reg("(*sync.RWMutex).Unlock", unlock)
	reg("(*sync.RWMutex).RLock", func(fr *frame, a []value) value {
		p := ptrArg(a[0])
		s := fr.i.sched
		s.yield("RWMutex.RLock")
		m := fr.i.mutexOf(p)
		s.block(func() bool { return !m.locked }, "RWMutex.RLock")
		m.readers++
		return nil
	})
	reg("(*sync.RWMutex).RUnlock", func(fr *frame, a []value) value {
		m := fr.i.mutexOf(ptrArg(a[0]))
		if m.readers <= 0 {
			panic(targetPanic{v: runtimeErr("sync: RUnlock of unlocked RWMutex")})
		}
		m.readers--
		fr.i.sched.yield("RWMutex.RUnlock")
		return nil
	})
	reg("(*sync.RWMutex).RLocker", func(fr *frame, a []value) value {
		panic(engineError{"RWMutex.RLocker unsupported"})
	})

	// ---- WaitGroup ----
	reg("(*sync.WaitGroup).Add", func(fr *frame, a []value) value {
		w := fr.i.wgOf(ptrArg(a[0]))
		w.n += int(asInt64(a[1]))
		if w.n < 0 {
			panic(targetPanic{v: runtimeErr("sync: negative WaitGroup counter")})
		}
		return nil
	})
	reg("(*sync.WaitGroup).Done", func(fr *frame, a []value) value {
		w := fr.i.wgOf(ptrArg(a[0]))
		w.n--
		if w.n < 0 {
			panic(targetPanic{v: runtimeErr("sync: negative WaitGroup counter")})
		}
		return nil
	})
	reg("(*sync.WaitGroup).Wait", func(fr *frame, a []value) value {
		w := fr.i.wgOf(ptrArg(a[0]))
		fr.i.sched.block(func() bool { return w.n == 0 }, "WaitGroup.Wait")
		return nil
	})
	reg("(*sync.WaitGroup).Go", func(fr *frame, a []value) value {
		w := fr.i.wgOf(ptrArg(a[0]))
		w.n++
		f := a[1]
		i := fr.i
		i.sched.spawn("wg.Go", func() {
			call(i, nil, token.NoPos, f, nil)
			w.n--
		})
		return nil
	})

	// ---- Once ----
	reg("(*sync.Once).Do", func(fr *frame, a []value) value {
		p := ptrArg(a[0])
		key := fmt.Sprintf("once:%p", p)
		if _, done := fr.i.ext[key]; done {
			return nil
		}
		fr.i.ext[key] = true
		call(fr.i, fr, fr.fn.Pos(), a[1], nil)
		return nil
	})

	// ---- Cond ----
	reg("(*sync.Cond).Wait", func(fr *frame, a []value) value {
		p := ptrArg(a[0])
		c := fr.i.condOf(p)
		w := &condWaiter{}
		c.waiters = append(c.waiters, w)
		L := (*p).(structure)[fieldIndex(deref(fr.fn.Signature.Recv().Type()), "L")].(iface)
		fr.i.callMethod(fr, L, "Unlock")
		fr.i.sched.block(func() bool { return w.woken }, "Cond.Wait")
		fr.i.callMethod(fr, L, "Lock")
		return nil
	})
	reg("(*sync.Cond).Signal", func(fr *frame, a []value) value {
		c := fr.i.condOf(ptrArg(a[0]))
		if len(c.waiters) > 0 {
			c.waiters[0].woken = true
			c.waiters = c.waiters[1:]
		}
		return nil
	})
	reg("(*sync.Cond).Broadcast", func(fr *frame, a []value) value {
		c := fr.i.condOf(ptrArg(a[0]))
		for _, w := range c.waiters {
			w.woken = true
		}
		c.waiters = nil
		return nil
	})

	// ---- sync.Map ----
	regSyncMap()

	// ---- atomics ----
	for _, ty := range []string{"Int32", "Int64", "Uint32", "Uint64", "Uintptr", "Pointer"} {
		ty := ty
		reg("sync/atomic.Load"+ty, func(fr *frame, a []value) value {
			fr.i.sched.yield("atomic.Load")
			return *ptrArg(a[0])
		})
		reg("sync/atomic.Store"+ty, func(fr *frame, a []value) value {
			fr.i.sched.yield("atomic.Store")
			*ptrArg(a[0]) = a[1]
			return nil
		})
		reg("sync/atomic.Swap"+ty, func(fr *frame, a []value) value {
			fr.i.sched.yield("atomic.Swap")
			p := ptrArg(a[0])
			old := *p
			*p = a[1]
			return old
		})
		reg("sync/atomic.CompareAndSwap"+ty, func(fr *frame, a []value) value {
			fr.i.sched.yield("atomic.CAS")
			p := ptrArg(a[0])
			t := fr.fn.Signature.Params().At(1).Type()
			eq := fr.i.equals(t, *p, a[1])
			var ok bool
			switch e := eq.(type) {
			case bool:
				ok = e
			case *Term:
				ok = fr.i.p.branch(e, "atomic CAS")
			}
			if ok {
				*p = a[2]
			}
			return ok
		})
		if ty != "Pointer" {
			reg("sync/atomic.Add"+ty, func(fr *frame, a []value) value {
				fr.i.sched.yield("atomic.Add")
				p := ptrArg(a[0])
				t := fr.fn.Signature.Params().At(1).Type()
				*p = fr.i.binop(token.ADD, t, *p, a[1])
				return *p
			})
			reg("sync/atomic.And"+ty, func(fr *frame, a []value) value {
				p := ptrArg(a[0])
				t := fr.fn.Signature.Params().At(1).Type()
				old := *p
				*p = fr.i.binop(token.AND, t, *p, a[1])
				return old
			})
			reg("sync/atomic.Or"+ty, func(fr *frame, a []value) value {
				p := ptrArg(a[0])
				t := fr.fn.Signature.Params().At(1).Type()
				old := *p
				*p = fr.i.binop(token.OR, t, *p, a[1])
				return old
			})
		}
	}
	// atomic.Value: keep the stored interface in the model state
	reg("(*sync/atomic.Value).Load", func(fr *frame, a []value) value {
		key := fmt.Sprintf("aval:%p", ptrArg(a[0]))
		if v, ok := fr.i.ext[key]; ok {
			return v.(iface)
		}
		return iface{}
	})
	reg("(*sync/atomic.Value).Store", func(fr *frame, a []value) value {
		key := fmt.Sprintf("aval:%p", ptrArg(a[0]))
		fr.i.ext[key] = a[1].(iface)
		return nil
	})

	// ---- time ----
	reg("time.Now", func(fr *frame, a []value) value { return timeValue(fr.i.p) })
	reg("time.Since", func(fr *frame, a []value) value { return int64(0) })
	reg("time.Until", func(fr *frame, a []value) value { return int64(0) })
	reg("time.Sleep", func(fr *frame, a []value) value {
		sc := fr.i.sched
		if sc.timed {
			if _, ok := a[0].(int64); ok {
				// virtual time: wait on a private timer
				t := sc.newTimer(false, fr.i.namedType("time", "Time"))
				sc.arm(t, a[0])
				sc.timerBudget++ // sleeping is not one of the counted timer firings
				sc.recv(t.ch)
				return nil
			}
		}
		sc.yield("Sleep")
		return nil
	})
	reg("time.After", func(fr *frame, a []value) value {
		t := fr.i.sched.newTimer(false, fr.i.namedType("time", "Time"))
		fr.i.sched.arm(t, a[0])
		return t.ch
	})
	reg("time.Tick", func(fr *frame, a []value) value {
		t := fr.i.sched.newTimer(true, fr.i.namedType("time", "Time"))
		return t.ch
	})
	mkTimer := func(ticker bool) externalFn {
		return func(fr *frame, a []value) value {
			t := fr.i.sched.newTimer(ticker, fr.i.namedType("time", "Time"))
			fr.i.sched.arm(t, a[0])
			name := "Timer"
			if ticker {
				name = "Ticker"
			}
			typ := fr.i.namedType("time", name)
			s := zero(typ).(structure)
			s[fieldIndex(typ, "C")] = t.ch
			cell := value(s)
			fr.i.ext[fmt.Sprintf("timer:%p", &cell)] = t
			return &cell
		}
	}
	reg("time.NewTimer", mkTimer(false))
	reg("time.NewTicker", mkTimer(true))
	timerOf := func(fr *frame, p *value) *timer {
		t, ok := fr.i.ext[fmt.Sprintf("timer:%p", p)]
		if !ok {
			panic(engineError{"unknown timer"})
		}
		return t.(*timer)
	}
	reg("(*time.Timer).Stop", func(fr *frame, a []value) value {
		t := timerOf(fr, ptrArg(a[0]))
		was := !t.stopped && !t.fired
		t.stopped = true
		return was
	})
	reg("(*time.Timer).Reset", func(fr *frame, a []value) value {
		t := timerOf(fr, ptrArg(a[0]))
		was := !t.stopped && !t.fired
		t.stopped = false
		t.fired = false
		fr.i.sched.arm(t, a[1])
		return was
	})
	reg("(*time.Ticker).Stop", func(fr *frame, a []value) value {
		timerOf(fr, ptrArg(a[0])).stopped = true
		return nil
	})
	reg("(*time.Ticker).Reset", func(fr *frame, a []value) value {
		timerOf(fr, ptrArg(a[0])).stopped = false
		return nil
	})
	reg("time.AfterFunc", func(fr *frame, a []value) value {
		i := fr.i
		t := i.sched.newTimer(false, i.namedType("time", "Time"))
		i.sched.arm(t, a[0])
		f := a[1]
		t.fn = func() {
			i.sched.spawn("AfterFunc", func() { call(i, nil, token.NoPos, f, nil) })
		}
		typ := i.namedType("time", "Timer")
		cell := value(zero(typ))
		i.ext[fmt.Sprintf("timer:%p", &cell)] = t
		return &cell
	})
}

// callMethod invokes a niladic method on an interface value.
func (i *interpreter) callMethod(fr *frame, recv iface, name string) value {
	if recv.t == nil {
		panic(targetPanic{v: runtimeErr("nil interface method call " + name)})
	}
	f := i.prog.ssa.LookupMethod(recv.t, nil, name)
	if f == nil {
		panic(engineError{"method not found: " + name})
	}
	return call(i, fr, f.Pos(), f, []value{recv.v})
}

// timeValue returns a time.Time whose seconds are an arbitrary
// non-decreasing symbolic instant.
func timeValue(p *path) value {
	st := p.st()
	const unixToInternal = 62135596800
	const epoch = 1700000000 // the clock is never before 2023-11-14
	if p.concreteClock {
		p.clockTicks++
		return structure{uint64(0), int64(epoch + p.clockTicks + unixToInternal), (*value)(nil)}
	}
	sec := st.FreshVar("now", BV(64))
	// epoch <= sec < 2^40, non-decreasing
	p.assume(st.bvCmp("bvult", sec, st.BVConst(1<<40, 64)), false)
	p.assume(st.bvCmp("bvule", st.BVConst(epoch, 64), sec), false)
	if prev, ok := p.ufApps["__now"]; ok && len(prev) > 0 {
		p.assume(st.bvCmp("bvule", prev[len(prev)-1], sec), false)
		if p.timeStep > 0 {
			p.assume(st.bvCmp("bvule", sec, st.bvBin("bvadd", prev[len(prev)-1], st.BVConst(uint64(p.timeStep), 64))), false)
		}
	}
	p.ufApps["__now"] = append(p.ufApps["__now"], sec)
	ext := st.bvBin("bvadd", sec, st.BVConst(unixToInternal, 64))
	return structure{uint64(0), value(ext), (*value)(nil)}
}

// ---- sync.Map: association list with linearizable operations ----

type syncMapState struct {
	m *smap
}

func (i *interpreter) syncMapOf(p *value) *smap {
	key := fmt.Sprintf("smap:%p", p)
	if m, ok := i.ext[key]; ok {
		return m.(*smap)
	}
	anyT := types.NewInterfaceType(nil, nil)
	m := &smap{kt: anyT, vt: anyT}
	i.ext[key] = m
	return m
}

func regSyncMap() {
	reg("(*sync.Map).Load", func(fr *frame, a []value) value {
		fr.i.sched.yield("sync.Map.Load")
		m := fr.i.syncMapOf(ptrArg(a[0]))
		if e := m.find(fr.i, a[1]); e != nil {
			return tuple{e.val, true}
		}
		return tuple{iface{}, false}
	})
	reg("(*sync.Map).Store", func(fr *frame, a []value) value {
		fr.i.sched.yield("sync.Map.Store")
		m := fr.i.syncMapOf(ptrArg(a[0]))
		m.insert(fr.i, a[1], a[2])
		return nil
	})
	reg("(*sync.Map).LoadOrStore", func(fr *frame, a []value) value {
		fr.i.sched.yield("sync.Map.LoadOrStore")
		m := fr.i.syncMapOf(ptrArg(a[0]))
		if e := m.find(fr.i, a[1]); e != nil {
			return tuple{e.val, true}
		}
		m.insert(fr.i, a[1], a[2])
		return tuple{a[2], false}
	})
	reg("(*sync.Map).LoadAndDelete", func(fr *frame, a []value) value {
		fr.i.sched.yield("sync.Map.LoadAndDelete")
		m := fr.i.syncMapOf(ptrArg(a[0]))
		if e := m.find(fr.i, a[1]); e != nil {
			v := e.val
			e.deleted = true
			m.n--
			return tuple{v, true}
		}
		return tuple{iface{}, false}
	})
	reg("(*sync.Map).Delete", func(fr *frame, a []value) value {
		fr.i.sched.yield("sync.Map.Delete")
		m := fr.i.syncMapOf(ptrArg(a[0]))
		m.delete(fr.i, a[1])
		return nil
	})
	reg("(*sync.Map).Range", func(fr *frame, a []value) value {
		fr.i.sched.yield("sync.Map.Range")
		m := fr.i.syncMapOf(ptrArg(a[0]))
		it := fr.i.rangeIter(m)
		for {
			t := it.next()
			if !t[0].(bool) {
				break
			}
			r := call(fr.i, fr, fr.fn.Pos(), a[1], []value{t[1], t[2]})
			if b, ok := r.(bool); ok && !b {
				break
			}
		}
		return nil
	})
}
