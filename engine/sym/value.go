// Derived from golang.org/x/tools/go/ssa/interp (BSD-style licence).

package sym

// Values
//
// All interpreter values are "boxed" in the empty interface, value.
// - bool, numbers (all built-in int/float types distinguished), string
// - *Term       --- symbolic bool / integer (sort Bool or BitVec n)
// - *smap       --- maps (association list; keys may be symbolic)
// - *channel
// - []value     --- slices
// - iface       --- interfaces
// - structure, array
// - *value      --- pointers
// - *ssa.Function, *ssa.Builtin, *closure, *nativeFunc --- functions
// - tuple, iter

import (
	"bytes"
	"fmt"
	"go/types"
	"io"
	"math/big"
	"strings"
	"unsafe"

	"golang.org/x/tools/go/ssa"
)

type value any

type tuple []value

type array []value

type iface struct {
	t types.Type
	v value
}

type structure []value

type iter interface {
	next() tuple
}

type closure struct {
	Fn  *ssa.Function
	Env []value
}

type bad struct{}

// symString is a string some of whose bytes are symbolic.
type symString struct{ b []value }

func strBytes(v value) ([]value, bool) {
	switch s := v.(type) {
	case symString:
		return s.b, true
	case string:
		out := make([]value, len(s))
		for k := 0; k < len(s); k++ {
			out[k] = s[k]
		}
		return out, true
	}
	return nil, false
}

func sameType(x, y types.Type) bool {
	if x == nil {
		return y == nil
	}
	return y != nil && types.Identical(x, y)
}

// lift converts a concrete scalar into a term.
func (st *Store) lift(v value) *Term {
	switch x := v.(type) {
	case *Term:
		return x
	case bool:
		return st.Bool(x)
	case int:
		return st.BVConst(uint64(x), 64)
	case int8:
		return st.BVConst(uint64(x), 8)
	case int16:
		return st.BVConst(uint64(x), 16)
	case int32:
		return st.BVConst(uint64(x), 32)
	case int64:
		return st.BVConst(uint64(x), 64)
	case uint:
		return st.BVConst(uint64(x), 64)
	case uint8:
		return st.BVConst(uint64(x), 8)
	case uint16:
		return st.BVConst(uint64(x), 16)
	case uint32:
		return st.BVConst(uint64(x), 32)
	case uint64:
		return st.BVConst(x, 64)
	case uintptr:
		return st.BVConst(uint64(x), 64)
	}
	panic(engineError{fmt.Sprintf("cannot lift %T to a term", v)})
}

// boolAnd combines two bool-or-Term values.
func (i *interpreter) boolAnd(a, b value) value {
	if x, ok := a.(bool); ok {
		if !x {
			return false
		}
		return b
	}
	if y, ok := b.(bool); ok {
		if !y {
			return false
		}
		return a
	}
	st := i.p.st()
	return simplify(st.And(a.(*Term), b.(*Term)))
}

func (i *interpreter) boolOr(a, b value) value {
	if x, ok := a.(bool); ok {
		if x {
			return true
		}
		return b
	}
	if y, ok := b.(bool); ok {
		if y {
			return true
		}
		return a
	}
	st := i.p.st()
	return simplify(st.Or(a.(*Term), b.(*Term)))
}

func (i *interpreter) boolNot(a value) value {
	if x, ok := a.(bool); ok {
		return !x
	}
	return simplify(i.p.st().Not(a.(*Term)))
}

// simplify turns a constant boolean term back into a Go bool.
func simplify(t *Term) value {
	if t.sort.K == SBool && t.op == "const" {
		return t.val.Sign() != 0
	}
	return t
}

// equals returns x == y for type t as a bool or a *Term.
func (i *interpreter) equals(t types.Type, x, y value) value {
	if tx, ok := x.(*Term); ok {
		return simplify(i.p.st().Eq(tx, i.p.st().lift(y)))
	}
	if ty, ok := y.(*Term); ok {
		return simplify(i.p.st().Eq(i.p.st().lift(x), ty))
	}
	if _, ok := x.(symString); ok {
		xb, _ := strBytes(x)
		yb, _ := strBytes(y)
		return i.bytesEqual(xb, yb)
	}
	if _, ok := y.(symString); ok {
		xb, _ := strBytes(x)
		yb, _ := strBytes(y)
		return i.bytesEqual(xb, yb)
	}
	switch x := x.(type) {
	case bool:
		return x == y.(bool)
	case int:
		return x == y.(int)
	case int8:
		return x == y.(int8)
	case int16:
		return x == y.(int16)
	case int32:
		return x == y.(int32)
	case int64:
		return x == y.(int64)
	case uint:
		return x == y.(uint)
	case uint8:
		return x == y.(uint8)
	case uint16:
		return x == y.(uint16)
	case uint32:
		return x == y.(uint32)
	case uint64:
		return x == y.(uint64)
	case uintptr:
		return x == y.(uintptr)
	case float32:
		return x == y.(float32)
	case float64:
		return x == y.(float64)
	case complex64:
		return x == y.(complex64)
	case complex128:
		return x == y.(complex128)
	case string:
		return x == y.(string)
	case *value:
		return x == y.(*value)
	case *channel:
		return x == y.(*channel)
	case unsafe.Pointer:
		return x == y.(unsafe.Pointer)
	case structure:
		ys := y.(structure)
		tStruct := t.Underlying().(*types.Struct)
		var res value = true
		for k, n := 0, tStruct.NumFields(); k < n; k++ {
			f := tStruct.Field(k)
			if f.Name() == "_" {
				continue
			}
			res = i.boolAnd(res, i.equals(f.Type(), x[k], ys[k]))
			if res == false {
				return false
			}
		}
		return res
	case array:
		ya := y.(array)
		tElt := t.Underlying().(*types.Array).Elem()
		// byte arrays whose bytes are slices of one wide term compare wide
		if wx, wy := i.wideBytes(x), i.wideBytes(ya); wx != nil || wy != nil {
			if wx == nil && i.allBytes(x) {
				wx = i.concatBytes([]value(x))
			}
			if wy == nil && i.allBytes(ya) {
				wy = i.concatBytes([]value(ya))
			}
			if wx != nil && wy != nil {
				return simplify(i.p.st().Eq(wx, wy))
			}
		}
		var res value = true
		for k := range x {
			res = i.boolAnd(res, i.equals(tElt, x[k], ya[k]))
			if res == false {
				return false
			}
		}
		return res
	case iface:
		yi := y.(iface)
		if !sameType(x.t, yi.t) {
			return false
		}
		if x.t == nil {
			return true
		}
		return i.equals(x.t, x.v, yi.v)
	case *smap:
		return x == y.(*smap)
	case *ssa.Function, *closure, *nativeFunc:
		panic(targetPanic{v: runtimeErr("comparing uncomparable type " + t.String())})
	}
	panic(engineError{fmt.Sprintf("comparing uncomparable type %s (%T)", t, x)})
}

// wideBytes: if a is a byte array (len>=4) with at least one symbolic
// byte, return the concatenation of its bytes (index 0 = most
// significant) as one term; nil when fully concrete.
func (i *interpreter) wideBytes(a array) *Term {
	if len(a) < 4 {
		return nil
	}
	symbolic := false
	for _, b := range a {
		switch b.(type) {
		case *Term:
			symbolic = true
		case uint8:
		default:
			return nil
		}
	}
	if !symbolic {
		return nil
	}
	return i.concatBytes([]value(a))
}

func (i *interpreter) allBytes(a array) bool {
	for _, b := range a {
		switch t := b.(type) {
		case uint8:
		case *Term:
			if t.sort.K != SBV || t.sort.W != 8 {
				return false
			}
		default:
			return false
		}
	}
	return len(a) >= 4
}

func (i *interpreter) concatBytes(bs []value) *Term {
	st := i.p.st()
	var t *Term
	// runs of concrete bytes become one constant
	var run []byte
	flush := func() {
		if len(run) == 0 {
			return
		}
		c := st.BVConstBig(new(big.Int).SetBytes(run), 8*len(run))
		run = run[:0]
		if t == nil {
			t = c
		} else {
			t = st.Concat(t, c)
		}
	}
	for _, b := range bs {
		if c, ok := b.(uint8); ok {
			run = append(run, c)
			continue
		}
		bt := st.lift(b)
		if bt.sort.W != 8 {
			panic(engineError{"concatBytes: non-byte element"})
		}
		if bt.op == "const" {
			run = append(run, byte(bt.val.Uint64()))
			continue
		}
		flush()
		if t == nil {
			t = bt
		} else {
			t = st.Concat(t, bt)
		}
	}
	flush()
	return t
}

// splitBytes returns the n bytes of a wide term, most significant first.
func (i *interpreter) splitBytes(t *Term, n int) []value {
	st := i.p.st()
	if st.splitMemo == nil {
		st.splitMemo = map[*Term][]*Term{}
	}
	ts, ok := st.splitMemo[t]
	if !ok || len(ts) != n {
		ts = make([]*Term, n)
		for k := 0; k < n; k++ {
			hi := (n-k)*8 - 1
			ts[k] = st.Extract(t, hi, hi-7)
		}
		st.splitMemo[t] = ts
	}
	out := make([]value, n)
	for k := 0; k < n; k++ {
		out[k] = termToValue(ts[k], types.Typ[types.Uint8])
	}
	return out
}

// load returns the value of type T in *addr.
func load(T types.Type, addr *value) value {
	switch T := T.Underlying().(type) {
	case *types.Struct:
		v := (*addr).(structure)
		a := make(structure, len(v))
		for i := range a {
			a[i] = load(T.Field(i).Type(), &v[i])
		}
		return a
	case *types.Array:
		v := (*addr).(array)
		a := make(array, len(v))
		for i := range a {
			a[i] = load(T.Elem(), &v[i])
		}
		return a
	default:
		return *addr
	}
}

// store stores value v of type T into *addr.
func store(T types.Type, addr *value, v value) {
	switch T := T.Underlying().(type) {
	case *types.Struct:
		lhs := (*addr).(structure)
		rhs := v.(structure)
		for i := range lhs {
			store(T.Field(i).Type(), &lhs[i], rhs[i])
		}
	case *types.Array:
		lhs := (*addr).(array)
		rhs := v.(array)
		for i := range lhs {
			store(T.Elem(), &lhs[i], rhs[i])
		}
	default:
		*addr = v
	}
}

func writeValue(buf *bytes.Buffer, v value) {
	switch v := v.(type) {
	case nil, bool, int, int8, int16, int32, int64, uint, uint8, uint16, uint32, uint64, uintptr, float32, float64, complex64, complex128, string:
		fmt.Fprintf(buf, "%v", v)
	case *Term:
		buf.WriteString("<sym ")
		buf.WriteString(v.String())
		buf.WriteString(">")
	case *smap:
		buf.WriteString("map[")
		if v != nil {
			sep := ""
			for _, e := range v.entries {
				if e.deleted {
					continue
				}
				buf.WriteString(sep)
				sep = " "
				writeValue(buf, e.key)
				buf.WriteString(":")
				writeValue(buf, e.val)
			}
		}
		buf.WriteString("]")
	case *channel:
		fmt.Fprintf(buf, "%p", v)
	case *value:
		if v == nil {
			buf.WriteString("<nil>")
		} else {
			fmt.Fprintf(buf, "%p", v)
		}
	case iface:
		fmt.Fprintf(buf, "(%s, ", v.t)
		writeValue(buf, v.v)
		buf.WriteString(")")
	case structure:
		buf.WriteString("{")
		for i, e := range v {
			if i > 0 {
				buf.WriteString(" ")
			}
			writeValue(buf, e)
		}
		buf.WriteString("}")
	case array:
		buf.WriteString("[")
		for i, e := range v {
			if i > 0 {
				buf.WriteString(" ")
			}
			writeValue(buf, e)
		}
		buf.WriteString("]")
	case []value:
		buf.WriteString("[")
		for i, e := range v {
			if i > 0 {
				buf.WriteString(" ")
			}
			writeValue(buf, e)
		}
		buf.WriteString("]")
	case *ssa.Function, *ssa.Builtin, *closure:
		fmt.Fprintf(buf, "%p", v)
	case tuple:
		buf.WriteString("(")
		for i, e := range v {
			if i > 0 {
				buf.WriteString(", ")
			}
			writeValue(buf, e)
		}
		buf.WriteString(")")
	case runtimeErr:
		buf.WriteString(v.String())
	default:
		fmt.Fprintf(buf, "<%T>", v)
	}
}

func toString(v value) string {
	var b bytes.Buffer
	writeValue(&b, v)
	return b.String()
}

// ------------------------------------------------------------------------
// Iterators

type stringIter struct {
	*strings.Reader
	i int
}

func (it *stringIter) next() tuple {
	okv := make(tuple, 3)
	ch, n, err := it.ReadRune()
	ok := err != io.EOF
	okv[0] = ok
	if ok {
		okv[1] = it.i
		okv[2] = ch
	}
	it.i += n
	return okv
}

// ------------------------------------------------------------------------
// Maps: association lists in insertion order.

type mapEntry struct {
	key     value
	val     value
	deleted bool
}

type smap struct {
	kt, vt  types.Type
	entries []*mapEntry
	n       int
}

func newSMap(t *types.Map) *smap {
	return &smap{kt: t.Key(), vt: t.Elem()}
}

func (m *smap) find(i *interpreter, k value) *mapEntry {
	if m == nil {
		return nil
	}
	for _, e := range m.entries {
		if e.deleted {
			continue
		}
		switch eq := i.equals(m.kt, e.key, k).(type) {
		case bool:
			if eq {
				return e
			}
		case *Term:
			if i.p.branch(eq, "map key equality") {
				return e
			}
		}
	}
	return nil
}

func (m *smap) insert(i *interpreter, k, v value) {
	if e := m.find(i, k); e != nil {
		e.val = v
		return
	}
	m.entries = append(m.entries, &mapEntry{key: copyVal(k), val: v})
	m.n++
}

func (m *smap) delete(i *interpreter, k value) {
	if e := m.find(i, k); e != nil {
		e.deleted = true
		m.n--
		// compact occasionally
		if len(m.entries) > 32 && m.n < len(m.entries)/2 {
			var ne []*mapEntry
			for _, e := range m.entries {
				if !e.deleted {
					ne = append(ne, e)
				}
			}
			m.entries = ne
		}
	}
}

func (m *smap) len() int {
	if m == nil {
		return 0
	}
	return m.n
}

type smapIter struct {
	i    *interpreter
	m    *smap
	rest []*mapEntry
}

func (it *smapIter) next() tuple {
	for len(it.rest) > 0 {
		k := 0
		if it.i.p.mapOrder && len(it.rest) > 1 {
			// only live entries take part in the choice
			var live []int
			for j, e := range it.rest {
				if !e.deleted {
					live = append(live, j)
				}
			}
			if len(live) == 0 {
				it.rest = nil
				break
			}
			k = live[0]
			if len(live) > 1 {
				k = live[it.i.p.choose(len(live), nil, "map order")]
			}
		}
		e := it.rest[k]
		it.rest = append(it.rest[:k:k], it.rest[k+1:]...)
		if e.deleted {
			continue
		}
		return tuple{true, copyVal(e.key), copyVal(e.val)}
	}
	return tuple{false, nil, nil}
}


// orderByGlobalRank sorts map entries with string keys by one global,
// nondeterministically chosen order of the keys (mode "maporder 2":
// every range over any map sees the keys in the same relative order; n!
// orders in total instead of n! per range statement).
func (i *interpreter) orderByGlobalRank(es []*mapEntry) {
	p := i.p
	for _, e := range es {
		k, ok := e.key.(string)
		if !ok {
			return // only string-keyed maps take part
		}
		found := false
		for _, r := range p.keyOrder {
			if r == k {
				found = true
			}
		}
		if !found {
			pos := p.choose(len(p.keyOrder)+1, nil, "global map order")
			p.keyOrder = append(p.keyOrder, "")
			copy(p.keyOrder[pos+1:], p.keyOrder[pos:])
			p.keyOrder[pos] = k
		}
	}
	rank := func(k string) int {
		for n, r := range p.keyOrder {
			if r == k {
				return n
			}
		}
		return -1
	}
	for a := 1; a < len(es); a++ {
		for b := a; b > 0 && rank(es[b].key.(string)) < rank(es[b-1].key.(string)); b-- {
			es[b], es[b-1] = es[b-1], es[b]
		}
	}
}
