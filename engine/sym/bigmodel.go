package sym

// math/big.Int on concrete values: the arithmetic kernels of math/big are
// assembly without SSA bodies, so the methods run natively on the
// interpreter's representation (struct{neg bool; abs []Word}).

import (
	"fmt"
	"math/big"
)

func bigFrom(p *value) *big.Int {
	if p == nil {
		panic(targetPanic{v: runtimeErr("nil *big.Int")})
	}
	s := (*p).(structure)
	neg, ok := s[0].(bool)
	if !ok {
		panic(engineError{"symbolic big.Int"})
	}
	words := s[1].([]value)
	ws := make([]big.Word, len(words))
	for k, w := range words {
		u, ok := w.(uint)
		if !ok {
			panic(engineError{"symbolic big.Int word"})
		}
		ws[k] = big.Word(u)
	}
	z := new(big.Int).SetBits(ws)
	if neg {
		z.Neg(z)
	}
	return z
}

func bigTo(p *value, z *big.Int) {
	ws := z.Bits()
	words := make([]value, len(ws))
	for k, w := range ws {
		words[k] = uint(w)
	}
	*p = structure{z.Sign() < 0, words}
}

func bigNew(z *big.Int) *value {
	cell := value(structure{false, []value(nil)})
	bigTo(&cell, z)
	return &cell
}

func init() {
	B := "(*math/big.Int)."
	bin := func(f func(z, x, y *big.Int) *big.Int) externalFn {
		return func(fr *frame, a []value) value {
			z := a[0].(*value)
			r := f(new(big.Int), bigFrom(a[1].(*value)), bigFrom(a[2].(*value)))
			bigTo(z, r)
			return z
		}
	}
	reg(B+"Add", bin(func(z, x, y *big.Int) *big.Int { return z.Add(x, y) }))
	reg(B+"Sub", bin(func(z, x, y *big.Int) *big.Int { return z.Sub(x, y) }))
	reg(B+"Mul", bin(func(z, x, y *big.Int) *big.Int { return z.Mul(x, y) }))
	reg(B+"And", bin(func(z, x, y *big.Int) *big.Int { return z.And(x, y) }))
	reg(B+"Or", bin(func(z, x, y *big.Int) *big.Int { return z.Or(x, y) }))
	divlike := func(f func(z, x, y *big.Int) *big.Int) externalFn {
		return func(fr *frame, a []value) value {
			y := bigFrom(a[2].(*value))
			if y.Sign() == 0 {
				panic(targetPanic{v: runtimeErr("division by zero")})
			}
			z := a[0].(*value)
			bigTo(z, f(new(big.Int), bigFrom(a[1].(*value)), y))
			return z
		}
	}
	reg(B+"Div", divlike(func(z, x, y *big.Int) *big.Int { return z.Div(x, y) }))
	reg(B+"Quo", divlike(func(z, x, y *big.Int) *big.Int { return z.Quo(x, y) }))
	reg(B+"Mod", divlike(func(z, x, y *big.Int) *big.Int { return z.Mod(x, y) }))
	reg(B+"Rem", divlike(func(z, x, y *big.Int) *big.Int { return z.Rem(x, y) }))
	reg(B+"Lsh", func(fr *frame, a []value) value {
		z := a[0].(*value)
		bigTo(z, new(big.Int).Lsh(bigFrom(a[1].(*value)), a[2].(uint)))
		return z
	})
	reg(B+"Rsh", func(fr *frame, a []value) value {
		z := a[0].(*value)
		bigTo(z, new(big.Int).Rsh(bigFrom(a[1].(*value)), a[2].(uint)))
		return z
	})
	reg(B+"Neg", func(fr *frame, a []value) value {
		z := a[0].(*value)
		bigTo(z, new(big.Int).Neg(bigFrom(a[1].(*value))))
		return z
	})
	reg(B+"Abs", func(fr *frame, a []value) value {
		z := a[0].(*value)
		bigTo(z, new(big.Int).Abs(bigFrom(a[1].(*value))))
		return z
	})
	reg(B+"Set", func(fr *frame, a []value) value {
		z := a[0].(*value)
		bigTo(z, bigFrom(a[1].(*value)))
		return z
	})
	reg(B+"SetInt64", func(fr *frame, a []value) value {
		z := a[0].(*value)
		bigTo(z, big.NewInt(a[1].(int64)))
		return z
	})
	reg(B+"SetUint64", func(fr *frame, a []value) value {
		z := a[0].(*value)
		bigTo(z, new(big.Int).SetUint64(a[1].(uint64)))
		return z
	})
	reg(B+"SetBytes", func(fr *frame, a []value) value {
		b, ok := concreteBytes(a[1].([]value))
		if !ok {
			panic(engineError{"big.Int.SetBytes on symbolic bytes"})
		}
		z := a[0].(*value)
		bigTo(z, new(big.Int).SetBytes(b))
		return z
	})
	reg(B+"SetString", func(fr *frame, a []value) value {
		z := a[0].(*value)
		r, ok := new(big.Int).SetString(a[1].(string), a[2].(int))
		if !ok {
			return tuple{(*value)(nil), false}
		}
		bigTo(z, r)
		return tuple{z, true}
	})
	reg(B+"Exp", func(fr *frame, a []value) value {
		z := a[0].(*value)
		var m *big.Int
		if mp := a[3].(*value); mp != nil {
			m = bigFrom(mp)
		}
		bigTo(z, new(big.Int).Exp(bigFrom(a[1].(*value)), bigFrom(a[2].(*value)), m))
		return z
	})
	reg(B+"Cmp", func(fr *frame, a []value) value {
		return bigFrom(a[0].(*value)).Cmp(bigFrom(a[1].(*value)))
	})
	reg(B+"Sign", func(fr *frame, a []value) value { return bigFrom(a[0].(*value)).Sign() })
	reg(B+"BitLen", func(fr *frame, a []value) value { return bigFrom(a[0].(*value)).BitLen() })
	reg(B+"Int64", func(fr *frame, a []value) value { return bigFrom(a[0].(*value)).Int64() })
	reg(B+"Uint64", func(fr *frame, a []value) value { return bigFrom(a[0].(*value)).Uint64() })
	reg(B+"IsInt64", func(fr *frame, a []value) value { return bigFrom(a[0].(*value)).IsInt64() })
	reg(B+"IsUint64", func(fr *frame, a []value) value { return bigFrom(a[0].(*value)).IsUint64() })
	reg(B+"Bytes", func(fr *frame, a []value) value { return bytesToValues(bigFrom(a[0].(*value)).Bytes()) })
	reg(B+"String", func(fr *frame, a []value) value {
		if a[0].(*value) == nil {
			return "<nil>"
		}
		return bigFrom(a[0].(*value)).String()
	})
	reg(B+"Text", func(fr *frame, a []value) value { return bigFrom(a[0].(*value)).Text(a[1].(int)) })
	reg(B+"Format", func(fr *frame, a []value) value { return nil })
	reg("math/big.NewInt", func(fr *frame, a []value) value { return bigNew(big.NewInt(a[0].(int64))) })
}

var _ = fmt.Sprint
