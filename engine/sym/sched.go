package sym

// Cooperative threads, channels, select, timers.  Each interpreted
// goroutine runs in its own Go goroutine but only one runs at a time;
// the scheduler passes a baton.

import (
	"os"
	"fmt"
	"go/types"
)

type tstate int

const (
	tRunnable tstate = iota
	tBlocked
	tDone
)

type thread struct {
	id      int
	resume  chan bool
	state   tstate
	ready   func() bool
	what    string
	quiesce bool
	name    string
}

type scheduler struct {
	p       *path
	threads []*thread
	cur     *thread
	parked  chan struct{}
	err     any // panic value propagated out of a thread
	timers  []*timer
	timerBudget int
	timed   bool  // virtual-time mode: timers with concrete durations fire in deadline order
	vnow    int64 // virtual time elapsed (ns)
	mainDone bool
}

func newScheduler(p *path) *scheduler {
	return &scheduler{p: p, parked: make(chan struct{})}
}

// spawn creates a thread that will run body when first scheduled.
func (s *scheduler) spawn(name string, body func()) *thread {
	t := &thread{id: len(s.threads), resume: make(chan bool), name: name}
	s.threads = append(s.threads, t)
	go func() {
		defer func() {
			if r := recover(); r != nil {
				if pe, ok := r.(pathEnd); ok && pe.verdict == "killed" {
					// silent
				} else if s.err == nil {
					s.err = r
				}
			}
			t.state = tDone
			s.parked <- struct{}{}
		}()
		if !<-t.resume {
			panic(pathEnd{"killed", ""})
		}
		body()
	}()
	return t
}

func (s *scheduler) park() {
	t := s.cur
	s.parked <- struct{}{}
	if !<-t.resume {
		panic(pathEnd{"killed", ""})
	}
}

// block suspends the current thread until ready() holds.
func (s *scheduler) block(ready func() bool, what string) {
	t := s.cur
	for !ready() {
		t.state = tBlocked
		t.ready = ready
		t.what = what
		s.park()
	}
	t.state = tRunnable
	t.ready = nil
}

// yield is a scheduling point (tier C): another runnable thread may be
// chosen to run instead of the current one.
func (s *scheduler) yield(what string) {
	if !s.p.schedAll || len(s.threads) < 2 {
		return
	}
	// is anybody else runnable?
	others := 0
	for _, t := range s.threads {
		if t != s.cur && s.isRunnable(t) {
			others++
		}
	}
	if others == 0 {
		return
	}
	s.cur.state = tRunnable
	s.cur.what = "yield:" + what
	s.park()
}

func (s *scheduler) isRunnable(t *thread) bool {
	switch t.state {
	case tRunnable:
		return !t.quiesce
	case tBlocked:
		return !t.quiesce && t.ready != nil && t.ready()
	}
	return false
}

// quiesce blocks the calling thread until no other thread can run.
func (s *scheduler) quiesce() {
	t := s.cur
	t.quiesce = true
	t.state = tRunnable
	s.park()
	t.quiesce = false
}

// run drives the threads until the main thread (id 0) finishes, an
// error is raised, or nothing can run.
func (s *scheduler) run() (deadlock bool, blockedDesc string) {
	var last *thread
	for {
		main := s.threads[0]
		if main.state == tDone || s.err != nil {
			break
		}
		var cands []*thread
		for _, t := range s.threads {
			if s.isRunnable(t) {
				cands = append(cands, t)
			}
		}
		if len(cands) == 0 && s.timed {
			// virtual time: a thread waiting for quiescence continues before any
			// time passes
			for _, t := range s.threads {
				if t.quiesce && t.state != tDone {
					cands = append(cands, t)
					break
				}
			}
		}
		if len(cands) == 0 {
			// nothing runnable: time passes - a timer somebody waits for may fire
			if s.fireSomeTimer() {
				continue
			}
			// threads waiting in quiesce may now continue
			for _, t := range s.threads {
				if t.quiesce && t.state != tDone {
					cands = append(cands, t)
					break
				}
			}
		}
		if len(cands) == 0 {
			desc := ""
			for _, t := range s.threads {
				if t.state == tBlocked {
					desc += fmt.Sprintf("[%d %s: %s] ", t.id, t.name, t.what)
				}
			}
			s.killAll()
			return true, desc
		}
		var next *thread
		if len(cands) == 1 {
			next = cands[0]
		} else if s.p.schedAll {
			// preemption bounding: switching away from a thread that could
			// continue costs one preemption
			curOK := false
			for _, c := range cands {
				if c == last {
					curOK = true
				}
			}
			if curOK && s.p.preempt <= 0 {
				next = last
			} else {
				k := s.p.choose(len(cands), nil, "sched")
				next = cands[k]
				if curOK && next != last {
					s.p.preempt--
				}
			}
			s.p.sched = append(s.p.sched, next.id)
		} else {
			// deterministic: keep running the last thread if possible, else lowest id
			next = cands[0]
			for _, c := range cands {
				if c == last {
					next = c
				}
			}
		}
		last = next
		s.cur = next
		next.resume <- true
		<-s.parked
	}
	s.killAll()
	return false, ""
}

func (s *scheduler) killAll() {
	for _, t := range s.threads {
		if t.state != tDone {
			s.cur = t
			t.resume <- false
			<-s.parked
		}
	}
}

// ---------------- channels ----------------

type channel struct {
	cap    int
	buf    []value
	closed bool
	recvq  []*waiter
	sendq  []*waiter
	elem   types.Type
	timer  *timer
	id     int
}

type selCase struct {
	ch   *channel
	send bool
	val  value
}

// waiter is a thread blocked on one or more channel operations.
type waiter struct {
	t     *thread
	cases []selCase
	fired int // index of the case that completed, -1 if none
	val   value
	ok    bool
}

func (w *waiter) unregister() {
	for _, c := range w.cases {
		if c.ch == nil {
			continue
		}
		q := &c.ch.recvq
		if c.send {
			q = &c.ch.sendq
		}
		for i, x := range *q {
			if x == w {
				*q = append((*q)[:i:i], (*q)[i+1:]...)
				break
			}
		}
	}
}

func (w *waiter) caseIndex(ch *channel, send bool) int {
	for i, c := range w.cases {
		if c.ch == ch && c.send == send {
			return i
		}
	}
	return -1
}

var chanCounter int

func newChannel(cap int, elem types.Type) *channel {
	return &channel{cap: cap, elem: elem}
}

// trySend attempts a non-blocking send.
func (s *scheduler) trySend(ch *channel, v value) bool {
	if ch.closed {
		panic(targetPanic{v: runtimeErr("send on closed channel")})
	}
	if len(ch.recvq) > 0 {
		w := ch.recvq[0]
		w.fired = w.caseIndex(ch, false)
		w.val, w.ok = v, true
		w.unregister()
		return true
	}
	if len(ch.buf) < ch.cap {
		ch.buf = append(ch.buf, v)
		return true
	}
	return false
}

// tryRecv attempts a non-blocking receive.
func (s *scheduler) tryRecv(ch *channel) (v value, ok bool, done bool) {
	if len(ch.buf) > 0 {
		v = ch.buf[0]
		ch.buf = ch.buf[1:]
		// a blocked sender can now move its value into the buffer
		if len(ch.sendq) > 0 {
			w := ch.sendq[0]
			i := w.caseIndex(ch, true)
			ch.buf = append(ch.buf, w.cases[i].val)
			w.fired = i
			w.unregister()
		}
		return v, true, true
	}
	if len(ch.sendq) > 0 {
		w := ch.sendq[0]
		i := w.caseIndex(ch, true)
		v = w.cases[i].val
		w.fired = i
		w.unregister()
		return v, true, true
	}
	if ch.closed {
		return zero(ch.elem), false, true
	}
	return nil, false, false
}

func (s *scheduler) recvReady(ch *channel) bool {
	return len(ch.buf) > 0 || len(ch.sendq) > 0 || ch.closed
}

func (s *scheduler) sendReady(ch *channel) bool {
	return ch.closed || len(ch.recvq) > 0 || len(ch.buf) < ch.cap
}

func (s *scheduler) send(ch *channel, v value) {
	s.yield("chan send")
	if ch == nil {
		s.block(func() bool { return false }, "send on nil channel")
	}
	if s.trySend(ch, v) {
		return
	}
	w := &waiter{t: s.cur, cases: []selCase{{ch, true, v}}, fired: -1}
	ch.sendq = append(ch.sendq, w)
	s.block(func() bool { return w.fired >= 0 || ch.closed }, "chan send")
	if w.fired < 0 {
		w.unregister()
		panic(targetPanic{v: runtimeErr("send on closed channel")})
	}
}

func (s *scheduler) recv(ch *channel) (value, bool) {
	s.yield("chan recv")
	if ch == nil {
		s.block(func() bool { return false }, "recv on nil channel")
	}
	s.maybeFireTimer(ch)
	if v, ok, done := s.tryRecv(ch); done {
		return v, ok
	}
	w := &waiter{t: s.cur, cases: []selCase{{ch, false, nil}}, fired: -1}
	ch.recvq = append(ch.recvq, w)
	s.block(func() bool { return w.fired >= 0 || ch.closed }, "chan recv")
	if w.fired < 0 {
		w.unregister()
		return zero(ch.elem), false
	}
	return w.val, w.ok
}

func (s *scheduler) closeChan(ch *channel) {
	if ch == nil {
		panic(targetPanic{v: runtimeErr("close of nil channel")})
	}
	if ch.closed {
		panic(targetPanic{v: runtimeErr("close of closed channel")})
	}
	ch.closed = true
}

// selectOp implements select.  Returns the index of the chosen case
// (-1 for default), and the received value / ok for receive cases.
func (s *scheduler) selectOp(cases []selCase, hasDefault bool) (int, value, bool) {
	s.yield("select")
	for _, c := range cases {
		if c.ch != nil && !c.send {
			s.maybeFireTimer(c.ch)
		}
	}
	var ready []int
	for i, c := range cases {
		if c.ch == nil {
			continue
		}
		if c.send && s.sendReady(c.ch) || !c.send && s.recvReady(c.ch) {
			ready = append(ready, i)
		}
	}
	if len(ready) > 0 {
		k := 0
		if len(ready) > 1 {
			k = s.p.choose(len(ready), nil, "select")
		}
		i := ready[k]
		c := cases[i]
		if c.send {
			if !s.trySend(c.ch, c.val) {
				panic(engineError{"select: send not ready after poll"})
			}
			return i, nil, false
		}
		v, ok, done := s.tryRecv(c.ch)
		if !done {
			panic(engineError{"select: recv not ready after poll"})
		}
		return i, v, ok
	}
	if hasDefault {
		return -1, nil, false
	}
	w := &waiter{t: s.cur, cases: cases, fired: -1}
	for _, c := range cases {
		if c.ch == nil {
			continue
		}
		if c.send {
			c.ch.sendq = append(c.ch.sendq, w)
		} else {
			c.ch.recvq = append(c.ch.recvq, w)
		}
	}
	closedCase := func() int {
		for i, c := range cases {
			if c.ch != nil && c.ch.closed {
				return i
			}
		}
		return -1
	}
	s.block(func() bool { return w.fired >= 0 || closedCase() >= 0 }, "select")
	if w.fired < 0 {
		w.unregister()
		i := closedCase()
		if cases[i].send {
			panic(targetPanic{v: runtimeErr("send on closed channel")})
		}
		return i, zero(cases[i].ch.elem), false
	}
	return w.fired, w.val, w.ok
}

// ---------------- timers ----------------

type timer struct {
	ch      *channel
	fired   bool
	stopped bool
	ticker  bool
	fn      func() // AfterFunc
	// timed mode (vpOpt "timed"): virtual deadline in ns and the period of a ticker;
	// timed is false when the duration was not concrete (the timer then fires
	// nondeterministically as in the untimed model)
	timed    bool
	deadline int64
	period   int64
}

func (s *scheduler) newTimer(ticker bool, elem types.Type) *timer {
	t := &timer{ch: newChannel(1, elem), ticker: ticker}
	t.ch.timer = t
	s.timers = append(s.timers, t)
	return t
}

// arm gives the timer a virtual deadline (timed mode only).
func (s *scheduler) arm(t *timer, d value) {
	if !s.timed {
		return
	}
	if n, ok := d.(int64); ok {
		t.timed, t.deadline, t.period = true, s.vnow+n, n
	}
}

func (s *scheduler) canFire(t *timer) bool {
	return !t.stopped && (!t.fired || t.ticker) && len(t.ch.buf) == 0 && s.timerBudget > 0
}

func (s *scheduler) fire(t *timer) {
	if os.Getenv("GOSYM_DEBUG_TIMERS") != "" {
		fmt.Fprintf(os.Stderr, "FIRE timer timed=%v deadline=%d vnow=%d ticker=%v waiters=%d\n", t.timed, t.deadline, s.vnow, t.ticker, len(t.ch.recvq))
	}
	s.timerBudget--
	t.fired = true
	if t.timed && t.ticker {
		t.deadline += t.period
	}
	if t.fn != nil {
		t.fn()
		return
	}
	s.trySend(t.ch, timeValue(s.p))
}

// maybeFireTimer: when a thread is about to look at a timer channel the
// timer may have expired by now (nondeterministic).
func (s *scheduler) maybeFireTimer(ch *channel) {
	t := ch.timer
	if t == nil || !s.canFire(t) {
		return
	}
	if t.timed {
		// virtual time only advances when every thread is blocked
		if t.deadline <= s.vnow {
			s.fire(t)
		}
		return
	}
	if s.p.choose(2, nil, "timer") == 1 {
		s.fire(t)
	}
}

// fireSomeTimer is called when every thread is blocked.
func (s *scheduler) fireSomeTimer() bool {
	var c []*timer
	for _, t := range s.timers {
		if s.canFire(t) && (len(t.ch.recvq) > 0 || t.fn != nil) {
			c = append(c, t)
		}
	}
	if len(c) == 0 {
		return false
	}
	if s.timed {
		// discrete-event step: the earliest deadline among the timers somebody
		// waits for is reached (untimed timers may fire at any moment)
		var first []*timer
		for _, t := range c {
			if !t.timed {
				first = append(first, t)
			}
		}
		min := int64(-1)
		for _, t := range c {
			if t.timed && (min < 0 || t.deadline < min) {
				min = t.deadline
			}
		}
		for _, t := range c {
			if t.timed && t.deadline == min {
				first = append(first, t)
			}
		}
		k := 0
		if len(first) > 1 {
			k = s.p.choose(len(first), nil, "timer-pick")
		}
		if first[k].timed && first[k].deadline > s.vnow {
			s.vnow = first[k].deadline
		}
		s.fire(first[k])
		return true
	}
	k := 0
	if len(c) > 1 {
		k = s.p.choose(len(c), nil, "timer-pick")
	}
	s.fire(c[k])
	return true
}
