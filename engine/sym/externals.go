package sym

// Library models: functions that cannot (or should not) be interpreted
// from their SSA bodies.

import (
	"fmt"
	"go/token"
	"go/types"
	"math"
	"net"
	"runtime"
	"sort"
	"strings"

	"golang.org/x/tools/go/ssa"
)

var externals = map[string]externalFn{}

// pkgExternals: catch-all per package (returns nil to fall through).
var pkgExternals = map[string]func(fn *ssa.Function) externalFn{}

func reg(name string, f externalFn) { externals[name] = f }

func nop(fr *frame, args []value) value { return zeroResults(fr.fn.Signature) }

func init() {
	// ---- runtime ----
	reg("runtime.Gosched", func(fr *frame, a []value) value { fr.i.sched.yield("Gosched"); return nil })
	reg("runtime.GC", nop)
	reg("runtime.NumCPU", func(fr *frame, a []value) value { return 4 })
	reg("runtime.GOMAXPROCS", func(fr *frame, a []value) value { return 4 })
	reg("runtime.KeepAlive", nop)
	reg("runtime.SetFinalizer", nop)
	reg("runtime.Stack", func(fr *frame, a []value) value { return 0 })
	reg("runtime/debug.Stack", func(fr *frame, a []value) value { return []value(nil) })
	reg("runtime.Caller", func(fr *frame, a []value) value { return tuple{uintptr(0), "", 0, false} })

	// ---- math ----
	reg("math.Float64frombits", func(fr *frame, a []value) value { return math.Float64frombits(a[0].(uint64)) })
	reg("math.Float64bits", func(fr *frame, a []value) value { return math.Float64bits(a[0].(float64)) })
	reg("math.Float32frombits", func(fr *frame, a []value) value { return math.Float32frombits(a[0].(uint32)) })
	reg("math.Float32bits", func(fr *frame, a []value) value { return math.Float32bits(a[0].(float32)) })
	reg("math.Abs", func(fr *frame, a []value) value { return math.Abs(a[0].(float64)) })
	reg("math.Max", func(fr *frame, a []value) value { return math.Max(a[0].(float64), a[1].(float64)) })
	reg("math.Min", func(fr *frame, a []value) value { return math.Min(a[0].(float64), a[1].(float64)) })
	reg("math.Floor", func(fr *frame, a []value) value { return math.Floor(a[0].(float64)) })
	reg("math.Ceil", func(fr *frame, a []value) value { return math.Ceil(a[0].(float64)) })
	reg("math.Log2", func(fr *frame, a []value) value { return math.Log2(a[0].(float64)) })
	reg("math.Pow", func(fr *frame, a []value) value { return math.Pow(a[0].(float64), a[1].(float64)) })

	// ---- bytes / bytealg ----
	reg("bytes.Equal", func(fr *frame, a []value) value { return fr.i.bytesEqual(a[0].([]value), a[1].([]value)) })
	reg("internal/bytealg.Equal", func(fr *frame, a []value) value { return fr.i.bytesEqual(a[0].([]value), a[1].([]value)) })
	reg("bytes.Compare", func(fr *frame, a []value) value { return fr.i.bytesCompare(a[0].([]value), a[1].([]value)) })
	reg("internal/bytealg.Compare", func(fr *frame, a []value) value { return fr.i.bytesCompare(a[0].([]value), a[1].([]value)) })
	reg("internal/bytealg.IndexByteString", func(fr *frame, a []value) value {
		return strings.IndexByte(a[0].(string), a[1].(byte))
	})
	reg("internal/bytealg.IndexByte", func(fr *frame, a []value) value {
		for k, b := range a[0].([]value) {
			if bb, ok := b.(byte); ok && bb == a[1].(byte) {
				return k
			} else if !ok {
				panic(engineError{"IndexByte on symbolic bytes"})
			}
		}
		return -1
	})
	reg("internal/bytealg.CountString", func(fr *frame, a []value) value {
		return strings.Count(a[0].(string), string([]byte{a[1].(byte)}))
	})
	reg("internal/bytealg.IndexString", func(fr *frame, a []value) value {
		return strings.Index(a[0].(string), a[1].(string))
	})
	reg("internal/bytealg.MakeNoZero", func(fr *frame, a []value) value {
		n := a[0].(int)
		s := make([]value, n)
		for k := range s {
			s[k] = uint8(0)
		}
		return s
	})
	reg("strings.Index", func(fr *frame, a []value) value { return strings.Index(a[0].(string), a[1].(string)) })
	reg("strings.Contains", func(fr *frame, a []value) value { return strings.Contains(a[0].(string), a[1].(string)) })
	reg("strings.IndexByte", func(fr *frame, a []value) value { return strings.IndexByte(a[0].(string), a[1].(byte)) })
	reg("strings.ToLower", func(fr *frame, a []value) value { return strings.ToLower(a[0].(string)) })
	reg("strings.HasPrefix", func(fr *frame, a []value) value { return strings.HasPrefix(a[0].(string), a[1].(string)) })
	reg("strings.HasSuffix", func(fr *frame, a []value) value { return strings.HasSuffix(a[0].(string), a[1].(string)) })
	reg("strings.LastIndex", func(fr *frame, a []value) value { return strings.LastIndex(a[0].(string), a[1].(string)) })
	reg("strings.LastIndexByte", func(fr *frame, a []value) value { return strings.LastIndexByte(a[0].(string), a[1].(byte)) })
	reg("strings.TrimSpace", func(fr *frame, a []value) value { return strings.TrimSpace(a[0].(string)) })
	reg("strconv.Itoa", func(fr *frame, a []value) value { return fmt.Sprint(a[0].(int)) })
	reg("path/filepath.Join", func(fr *frame, a []value) value {
		var parts []string
		for _, p := range a[0].([]value) {
			parts = append(parts, p.(string))
		}
		return strings.Join(parts, "/")
	})

	// ---- sort ----
	reg("sort.Slice", extSortSlice)
	reg("sort.SliceStable", extSortSlice)

	// ---- fmt / errors ----
	reg("fmt.Sprintf", func(fr *frame, a []value) value { return fr.i.sprintf(a[0].(string), a[1].([]value)) })
	reg("fmt.Sprint", func(fr *frame, a []value) value { return fr.i.sprint(a[0].([]value)) })
	reg("fmt.Sprintln", func(fr *frame, a []value) value { return fr.i.sprint(a[0].([]value)) + "\n" })
	reg("fmt.Printf", func(fr *frame, a []value) value { return tuple{0, iface{}} })
	reg("fmt.Println", func(fr *frame, a []value) value { return tuple{0, iface{}} })
	reg("fmt.Print", func(fr *frame, a []value) value { return tuple{0, iface{}} })
	reg("fmt.Fprintf", func(fr *frame, a []value) value { return tuple{0, iface{}} })
	reg("fmt.Fprintln", func(fr *frame, a []value) value { return tuple{0, iface{}} })
	reg("fmt.Errorf", extErrorf)
	reg("errors.Is", func(fr *frame, a []value) value { return fr.i.errorsIs(a[0].(iface), a[1].(iface)) })
	reg("errors.As", func(fr *frame, a []value) value { return fr.i.errorsAs(a[0].(iface), a[1].(iface)) })
	reg("github.com/davecgh/go-spew/spew.Sdump", func(fr *frame, a []value) value { return "<spew>" })

	// ---- sync.Pool ----
	// Get hands back the object most recently Put (what the runtime does on
	// one P without an intervening GC), New() when the pool is empty: state a
	// caller leaves in a pooled object is seen by the next user.
	reg("(*sync.Pool).Get", func(fr *frame, a []value) value {
		p := a[0].(*value)
		key := fmt.Sprintf("pool:%p", p)
		if items, ok := fr.i.ext[key].([]value); ok && len(items) > 0 {
			it := items[len(items)-1]
			fr.i.ext[key] = items[:len(items)-1]
			return it
		}
		s := (*p).(structure)
		// field "New" is the last field
		st := deref(fr.fn.Signature.Recv().Type()).Underlying().(*types.Struct)
		for k := 0; k < st.NumFields(); k++ {
			if st.Field(k).Name() == "New" {
				if isNilFunc(s[k]) {
					return iface{}
				}
				return call(fr.i, fr, fr.fn.Pos(), s[k], nil)
			}
		}
		return iface{}
	})
	reg("(*sync.Pool).Put", func(fr *frame, a []value) value {
		key := fmt.Sprintf("pool:%p", a[0].(*value))
		items, _ := fr.i.ext[key].([]value)
		fr.i.ext[key] = append(items, a[1])
		return nil
	})

	pkgExternals["github.com/btcsuite/btclog"] = func(fn *ssa.Function) externalFn { return nop }
	pkgExternals["log"] = func(fn *ssa.Function) externalFn { return nop }
}

func isNilFunc(v value) bool {
	switch f := v.(type) {
	case *ssa.Function:
		return f == nil
	case *closure:
		return f == nil
	case nil:
		return true
	}
	return false
}

func (i *interpreter) bytesEqual(a, b []value) value {
	if len(a) != len(b) {
		return false
	}
	if len(a) >= 4 {
		wa, wb := i.wideBytes(array(a)), i.wideBytes(array(b))
		if wa != nil || wb != nil {
			if wa == nil {
				wa = i.concatBytes(a)
			}
			if wb == nil {
				wb = i.concatBytes(b)
			}
			return simplify(i.p.st().Eq(wa, wb))
		}
	}
	var res value = true
	for k := range a {
		res = i.boolAnd(res, i.equals(types.Typ[types.Uint8], a[k], b[k]))
		if res == false {
			return false
		}
	}
	return res
}

func (i *interpreter) bytesCompare(a, b []value) value {
	n := len(a)
	if len(b) < n {
		n = len(b)
	}
	symbolic := false
	for k := 0; k < n; k++ {
		_, okx := a[k].(uint8)
		_, oky := b[k].(uint8)
		if !okx || !oky {
			symbolic = true
		}
	}
	if symbolic {
		// compare the common prefix as big-endian unsigned integers
		st := i.p.st()
		wa, wb := i.concatBytes(a[:n]), i.concatBytes(b[:n])
		if !i.p.branch(st.Eq(wa, wb), "bytes.Compare eq") {
			if i.p.branch(st.bvCmp("bvult", wa, wb), "bytes.Compare lt") {
				return -1
			}
			return 1
		}
	} else {
		for k := 0; k < n; k++ {
			x, y := a[k].(uint8), b[k].(uint8)
			if x < y {
				return -1
			}
			if x > y {
				return 1
			}
		}
	}
	switch {
	case len(a) < len(b):
		return -1
	case len(a) > len(b):
		return 1
	}
	return 0
}

func extSortSlice(fr *frame, a []value) value {
	s := a[0].(iface).v.([]value)
	less := a[1]
	// insertion sort calling the real less closure (works on symbolic data
	// because each comparison is decided by branching)
	lessAt := func(x, y int) bool {
		r := call(fr.i, fr, fr.fn.Pos(), less, []value{x, y})
		switch r := r.(type) {
		case bool:
			return r
		case *Term:
			return fr.i.p.branch(r, "sort less")
		}
		panic(engineError{"sort.Slice less result"})
	}
	for k := 1; k < len(s); k++ {
		for j := k; j > 0 && lessAt(j, j-1); j-- {
			s[j], s[j-1] = s[j-1], s[j]
		}
	}
	return nil
}

// ---- formatting ----

func (i *interpreter) toGo(v value) any {
	switch x := v.(type) {
	case iface:
		if x.t == nil {
			return nil
		}
		// error / Stringer: call the method through the interpreter when cheap
		if s, ok := i.tryStringMethod(x); ok {
			return s
		}
		return i.toGo(x.v)
	case *Term:
		return "<sym>"
	case bool, int, int8, int16, int32, int64, uint, uint8, uint16, uint32, uint64, uintptr, float32, float64, string:
		return x
	case nil:
		return nil
	case []value:
		allBytes := len(x) > 0
		bs := make([]byte, len(x))
		for k, e := range x {
			b, ok := e.(uint8)
			if !ok {
				allBytes = false
				break
			}
			bs[k] = b
		}
		if allBytes {
			return bs
		}
		return toString(v)
	}
	return toString(v)
}

func (i *interpreter) tryStringMethod(x iface) (s string, ok bool) {
	defer func() {
		if r := recover(); r != nil {
			if isControl(r) {
				if _, isRT := r.(runtime.Error); !isRT {
					if _, isEng := r.(engineError); !isEng {
						panic(r)
					}
				}
			}
			s, ok = "<unprintable>", true
		}
	}()
	for _, name := range []string{"Error", "String"} {
		f := i.prog.ssa.LookupMethod(x.t, nil, name)
		if f == nil {
			continue
		}
		sig := f.Signature
		if sig.Params().Len() != 0 || sig.Results().Len() != 1 {
			continue
		}
		if b := basicOf(sig.Results().At(0).Type()); b == nil || b.Kind() != types.String {
			continue
		}
		r := call(i, nil, f.Pos(), f, []value{x.v})
		if rs, isStr := r.(string); isStr {
			return rs, true
		}
	}
	return "", false
}

func (i *interpreter) sprintf(format string, args []value) string {
	gs := make([]any, len(args))
	for k, a := range args {
		gs[k] = i.toGo(a)
	}
	format = strings.ReplaceAll(format, "%w", "%v")
	return fmt.Sprintf(format, gs...)
}

func (i *interpreter) sprint(args []value) string {
	gs := make([]any, len(args))
	for k, a := range args {
		gs[k] = i.toGo(a)
	}
	return fmt.Sprint(gs...)
}

func (i *interpreter) namedType(pkg, name string) types.Type {
	p := i.prog.ssa.ImportedPackage(pkg)
	if p == nil {
		panic(engineError{"package not loaded: " + pkg})
	}
	t := p.Type(name)
	if t == nil {
		panic(engineError{"type not found: " + pkg + "." + name})
	}
	return t.Type()
}

// ruleError builds a blockchain.RuleError{ErrorCode: <code>, Description: msg}.
func (i *interpreter) ruleError(code, msg string) value {
	const pkg = "github.com/btcsuite/btcd/blockchain"
	t := i.namedType(pkg, "RuleError")
	c := i.prog.ssa.ImportedPackage(pkg).Const(code)
	if c == nil {
		panic(engineError{"constant not found: " + pkg + "." + code})
	}
	return iface{t: t, v: structure{constValue(c.Value), msg}}
}

func (i *interpreter) newError(msg string) value {
	t := i.namedType("errors", "errorString")
	cell := value(structure{msg})
	return iface{t: types.NewPointer(t), v: &cell}
}

func extErrorf(fr *frame, a []value) value {
	i := fr.i
	format := a[0].(string)
	args := a[1].([]value)
	msg := i.sprintf(format, args)
	if strings.Contains(format, "%w") {
		// wrap the first error-typed argument that corresponds to %w
		idx := 0
		for k := 0; k+1 < len(format); k++ {
			if format[k] != '%' {
				continue
			}
			if format[k+1] == '%' {
				k++
				continue
			}
			// find verb char
			j := k + 1
			for j < len(format) && strings.ContainsRune("+-# 0123456789.*", rune(format[j])) {
				j++
			}
			if j < len(format) && format[j] == 'w' && idx < len(args) {
				if e, ok := args[idx].(iface); ok && e.t != nil {
					t := i.namedType("fmt", "wrapError")
					cell := value(structure{msg, e})
					return iface{t: types.NewPointer(t), v: &cell}
				}
			}
			idx++
			k = j
		}
	}
	return i.newError(msg)
}

func (i *interpreter) unwrap(e iface) (iface, bool) {
	if e.t == nil {
		return iface{}, false
	}
	f := i.lookupMethodOrNil(e.t, "Unwrap")
	if f == nil || f.Signature.Params().Len() != 0 || f.Signature.Results().Len() != 1 {
		return iface{}, false
	}
	if _, ok := f.Signature.Results().At(0).Type().Underlying().(*types.Interface); !ok {
		return iface{}, false
	}
	r := call(i, nil, f.Pos(), f, []value{e.v}).(iface)
	return r, r.t != nil
}

// lookupMethodOrNil: the exported method name of T, or nil when T has no
// such method (ssa.Program.LookupMethod panics in that case).
func (i *interpreter) lookupMethodOrNil(T types.Type, name string) *ssa.Function {
	if i.prog.ssa.MethodSets.MethodSet(T).Lookup(nil, name) == nil {
		return nil
	}
	return i.prog.ssa.LookupMethod(T, nil, name)
}

func (i *interpreter) errorsIs(err, target iface) value {
	if err.t == nil || target.t == nil {
		return err.t == nil && target.t == nil
	}
	comparable := types.Comparable(target.t)
	for {
		if comparable && sameType(err.t, target.t) {
			switch eq := i.equals(err.t, err.v, target.v).(type) {
			case bool:
				if eq {
					return true
				}
			case *Term:
				if i.p.branch(eq, "errors.Is") {
					return true
				}
			}
		}
		if f := i.lookupMethodOrNil(err.t, "Is"); f != nil && f.Signature.Params().Len() == 1 {
			if r, ok := call(i, nil, f.Pos(), f, []value{err.v, target}).(bool); ok && r {
				return true
			}
		}
		var ok bool
		err, ok = i.unwrap(err)
		if !ok {
			return false
		}
	}
}

func (i *interpreter) errorsAs(err, target iface) value {
	pt, ok := target.t.Underlying().(*types.Pointer)
	if !ok {
		panic(targetPanic{v: runtimeErr("errors: target must be a non-nil pointer")})
	}
	want := pt.Elem()
	dst := target.v.(*value)
	for err.t != nil {
		if _, isIface := want.Underlying().(*types.Interface); isIface {
			if types.Implements(err.t, want.Underlying().(*types.Interface)) {
				*dst = err
				return true
			}
		} else if types.Identical(err.t, want) {
			store(want, dst, err.v)
			return true
		}
		var ok bool
		err, ok = i.unwrap(err)
		if !ok {
			break
		}
	}
	return false
}

var _ = sort.Ints

// ---- btcd models ----

func init() {
	// BlockHash: injective UF over the 80 serialized bytes.
	reg("(*github.com/btcsuite/btcd/wire/v2.BlockHeader).BlockHash", func(fr *frame, a []value) value {
		p := ptrArg(a[0])
		return array(fr.i.hashUF("blk", fr.i.serializeHeader((*p).(structure))))
	})
}

// leBytes splits an integer value into n little-endian bytes.
func (i *interpreter) leBytes(v value, n int) []value {
	st := i.p.st()
	t := st.lift(v)
	out := make([]value, n)
	for k := 0; k < n; k++ {
		out[k] = termToValue(st.Extract(t, 8*k+7, 8*k), types.Typ[types.Uint8])
	}
	return out
}

// serializeHeader produces the 80-byte wire encoding of a
// wire.BlockHeader structure {Version, PrevBlock, MerkleRoot, Timestamp, Bits, Nonce}.
func (i *interpreter) serializeHeader(h structure) []value {
	var out []value
	out = append(out, i.leBytes(h[0], 4)...)
	out = append(out, h[1].(array)...)
	out = append(out, h[2].(array)...)
	// Timestamp: time.Time{wall, ext, loc}; Unix seconds = ext - unixToInternal when no monotonic reading
	ts := h[3].(structure)
	wall, okw := ts[0].(uint64)
	if !okw || wall&(1<<63) != 0 {
		panic(engineError{"serializeHeader: timestamp with monotonic clock reading or symbolic wall"})
	}
	const unixToInternal = 62135596800
	sec := i.binop(token.SUB, types.Typ[types.Int64], ts[1], int64(unixToInternal))
	sec32 := i.conv(types.Typ[types.Uint32], types.Typ[types.Int64], sec)
	out = append(out, i.leBytes(sec32, 4)...)
	out = append(out, i.leBytes(h[4], 4)...)
	out = append(out, i.leBytes(h[5], 4)...)
	return out
}

// ---- generic hashing: every digest is an injective UF of its input ----

func init() {
	ch := "github.com/btcsuite/btcd/chainhash/v2."
	hashOf := func(name string) externalFn {
		return func(fr *frame, a []value) value {
			b := a[0].([]value)
			if len(b) == 0 {
				b = []value{uint8(0xEE)} // distinguished empty input
			}
			return array(fr.i.hashUF(name, b))
		}
	}
	hashOfSlice := func(name string) externalFn {
		return func(fr *frame, a []value) value {
			b := a[0].([]value)
			if len(b) == 0 {
				b = []value{uint8(0xEE)}
			}
			return fr.i.hashUF(name, b)
		}
	}
	reg(ch+"HashH", hashOf("sha"))
	reg(ch+"DoubleHashH", hashOf("dsha"))
	reg(ch+"HashB", hashOfSlice("sha"))
	reg(ch+"DoubleHashB", hashOfSlice("dsha"))
	reg("crypto/sha256.Sum256", hashOf("sha"))
	reg(ch+"DoubleHashRaw", func(fr *frame, a []value) value {
		// func DoubleHashRaw(serialize func(w io.Writer) error) Hash
		i := fr.i
		bufT := i.namedType("bytes", "Buffer")
		cell := zero(bufT)
		w := iface{t: types.NewPointer(bufT), v: &cell}
		call(i, fr, fr.fn.Pos(), a[0], []value{w})
		s := cell.(structure)
		data := s[fieldIndex(bufT, "buf")].([]value)
		off := s[fieldIndex(bufT, "off")].(int)
		b := data[off:]
		if len(b) == 0 {
			b = []value{uint8(0xEE)}
		}
		return array(i.hashUF("dsha", b))
	})
}

// BuildBasicFilter: the filter of a block is an opaque function of the
// block hash and the previous-output scripts handed in.
func init() {
	reg("github.com/btcsuite/btcd/btcutil/v2/gcs/builder.BuildBasicFilter", func(fr *frame, a []value) value {
		i := fr.i
		blk := ptrArg(a[0])
		hdrT := i.namedType("github.com/btcsuite/btcd/wire/v2", "MsgBlock")
		hdr := (*blk).(structure)[fieldIndex(hdrT, "Header")].(structure)
		in := append([]value(nil), i.hashUF("blk", i.serializeHeader(hdr))...)
		for _, s := range a[1].([]value) {
			in = append(in, s.([]value)...)
		}
		data := i.hashUF("gcs", in)
		ft := i.namedType("github.com/btcsuite/btcd/btcutil/v2/gcs", "Filter")
		s := zero(ft).(structure)
		s[fieldIndex(ft, "n")] = uint32(1)
		s[fieldIndex(ft, "p")] = uint8(19)
		s[fieldIndex(ft, "modulusNP")] = uint64(784931) << 19
		s[fieldIndex(ft, "filterData")] = append([]value(nil), data...)
		cell := value(s)
		return tuple{&cell, iface{}}
	})
}

// ---- net: textual parsing runs natively on concrete strings ----

func bytesToValues(b []byte) []value {
	if b == nil {
		return []value(nil)
	}
	out := make([]value, len(b))
	for k, x := range b {
		out[k] = x
	}
	return out
}

func concreteBytes(v []value) ([]byte, bool) {
	out := make([]byte, len(v))
	for k, x := range v {
		b, ok := x.(uint8)
		if !ok {
			return nil, false
		}
		out[k] = b
	}
	return out, true
}

func init() {
	reg("net.ParseIP", func(fr *frame, a []value) value {
		return bytesToValues(net.ParseIP(a[0].(string)))
	})
	reg("net.SplitHostPort", func(fr *frame, a []value) value {
		h, p, err := net.SplitHostPort(a[0].(string))
		if err != nil {
			return tuple{"", "", fr.i.newError(err.Error())}
		}
		return tuple{h, p, iface{}}
	})
	reg("net.JoinHostPort", func(fr *frame, a []value) value {
		return net.JoinHostPort(a[0].(string), a[1].(string))
	})
	reg("(net.IP).String", func(fr *frame, a []value) value {
		b, ok := concreteBytes(a[0].([]value))
		if !ok {
			return "<sym-ip>"
		}
		return net.IP(b).String()
	})
	reg("(*net.IPNet).String", func(fr *frame, a []value) value { return "<ipnet>" })
}

// ---- printing of hashes / outpoints (never the subject; avoids
// case-splitting on hex digits of symbolic bytes) ----

func init() {
	hashStr := func(fr *frame, a []value) value {
		var arr array
		switch x := a[0].(type) {
		case array:
			arr = x
		case *value:
			arr = (*ptrArg(x)).(array)
		}
		b, ok := concreteBytes([]value(arr))
		if !ok {
			return "<sym-hash>"
		}
		// chainhash prints byte-reversed hex
		for l, r := 0, len(b)-1; l < r; l, r = l+1, r-1 {
			b[l], b[r] = b[r], b[l]
		}
		return fmt.Sprintf("%x", b)
	}
	reg("(github.com/btcsuite/btcd/chainhash/v2.Hash).String", hashStr)
	reg("(*github.com/btcsuite/btcd/chainhash/v2.Hash).String", hashStr)
	reg("(github.com/btcsuite/btcd/wire/v2.OutPoint).String", func(fr *frame, a []value) value {
		s := a[0].(structure)
		return hashStr(fr, []value{s[0]}).(string) + ":" + toString(s[1])
	})
	reg("(*github.com/btcsuite/btcd/wire/v2.OutPoint).String", func(fr *frame, a []value) value {
		s := (*ptrArg(a[0])).(structure)
		return hashStr(fr, []value{s[0]}).(string) + ":" + toString(s[1])
	})
	reg("encoding/hex.EncodeToString", func(fr *frame, a []value) value {
		b, ok := concreteBytes(a[0].([]value))
		if !ok {
			return "<sym-hex>"
		}
		return fmt.Sprintf("%x", b)
	})
}

// ---- proof of work: an uninterpreted predicate of the header hash ----

func (i *interpreter) powOK(hdr structure) value {
	st := i.p.st()
	h := i.concatBytes(i.hashUF("blk", i.serializeHeader(hdr)))
	return simplify(st.Apply("P_pow", BoolSort, h))
}

func init() {
	reg("github.com/btcsuite/btcd/blockchain.checkProofOfWork", func(fr *frame, a []value) value {
		// func checkProofOfWork(header *wire.BlockHeader, powLimit *big.Int, flags BehaviorFlags) error
		p := ptrArg(a[0])
		ok := fr.i.powOK((*p).(structure))
		var good bool
		switch o := ok.(type) {
		case bool:
			good = o
		case *Term:
			good = fr.i.p.branch(o, "proof of work")
		}
		if good {
			return iface{}
		}
		return fr.i.newError("vp: proof of work check failed")
	})
}

// ---- block validity: per-block symbolic predicates ----
// blockchain.CheckBlockSanity and ValidateWitnessCommitment are decided
// by btcd (merkle root, witness commitment maths); what is checked in
// neutrino is that both are called on the right block and honoured.  Each
// distinct *wire.MsgBlock gets two free symbolic booleans.

func (i *interpreter) blockPred(kind string, msgBlock *value) value {
	key := fmt.Sprintf("blkpred:%s:%p", kind, msgBlock)
	if v, ok := i.ext[key]; ok {
		return v.(value)
	}
	n := len(i.ext)
	t := i.p.st().Var(fmt.Sprintf("%s#%d", kind, n), BoolSort)
	i.logVar(fmt.Sprintf("%s%d", kind, n), "bool", t, nil, 0)
	i.ext[key] = value(t)
	return t
}

func (i *interpreter) msgBlockOf(blk *value) *value {
	// btcutil.Block{msgBlock *wire.MsgBlock, ...}
	bt := i.namedType("github.com/btcsuite/btcd/btcutil/v2", "Block")
	return (*blk).(structure)[fieldIndex(bt, "msgBlock")].(*value)
}

func init() {
	pred := func(kind string) externalFn {
		return func(fr *frame, a []value) value {
			mb := fr.i.msgBlockOf(ptrArg(a[0]))
			fr.i.callLog()[kind]++
			v := fr.i.blockPred(kind, mb)
			ok := false
			switch x := v.(type) {
			case bool:
				ok = x
			case *Term:
				ok = fr.i.p.branch(x, kind)
			}
			if ok {
				return iface{}
			}
			return fr.i.newError("vp: " + kind + " failed")
		}
	}
	// CheckBlockSanity: with vpOpt("blocktime",1) the header part of the check
	// comes first, as in btcd: a block whose timestamp is too far ahead of the
	// local clock fails with RuleError{ErrTimeTooNew} before its transactions
	// are looked at; any other failure is reported as RuleError{ErrBadMerkleRoot}.
	bodySane := pred("blockSane")
	reg("github.com/btcsuite/btcd/blockchain.CheckBlockSanity", func(fr *frame, a []value) value {
		if on, _ := fr.i.ext["opt:blocktime"].(bool); on {
			mb := fr.i.msgBlockOf(ptrArg(a[0]))
			ok := true
			switch x := fr.i.blockPred("blockTimeOK", mb).(type) {
			case bool:
				ok = x
			case *Term:
				ok = fr.i.p.branch(x, "blockTimeOK")
			}
			if !ok {
				fr.i.callLog()["blockSane"]++
				return fr.i.ruleError("ErrTimeTooNew", "vp: block timestamp too far in the future")
			}
		}
		r := bodySane(fr, a)
		if it, isIface := r.(iface); isIface && it.t != nil {
			return fr.i.ruleError("ErrBadMerkleRoot", "vp: block merkle root is invalid")
		}
		return r
	})
	reg("github.com/btcsuite/btcd/blockchain.ValidateWitnessCommitment", pred("witnessOK"))
	unwrap := func(v value) *value {
		if it, ok := v.(iface); ok {
			v = it.v
		}
		return ptrArg(v)
	}
	vpExternals["vpBlockSane"] = func(fr *frame, a []value) value { return fr.i.blockPred("blockSane", unwrap(a[0])) }
	vpExternals["vpBlockTimeOK"] = func(fr *frame, a []value) value { return fr.i.blockPred("blockTimeOK", unwrap(a[0])) }
	vpExternals["vpBlockWitnessOK"] = func(fr *frame, a []value) value { return fr.i.blockPred("witnessOK", unwrap(a[0])) }
}

// VerifyBasicBlockFilter (neutrino/verification.go) checks a GCS filter
// against the scripts of a block with btcd's matcher; its verdict is
// modelled by a marker in the model filter payload: a filter whose first
// payload byte is 0xBA "omits an output script of the block".
func init() {
	reg("github.com/lightninglabs/neutrino.VerifyBasicBlockFilter", func(fr *frame, a []value) value {
		i := fr.i
		f := ptrArg(a[0])
		ft := i.namedType("github.com/btcsuite/btcd/btcutil/v2/gcs", "Filter")
		data := (*f).(structure)[fieldIndex(ft, "filterData")].([]value)
		i.callLog()["VerifyBasicBlockFilter"]++
		bad := false
		if len(data) > 0 {
			switch b := data[0].(type) {
			case uint8:
				bad = b == 0xBA
			case *Term:
				bad = i.p.branch(i.p.st().Eq(b, i.p.st().BVConst(0xBA, 8)), "filter validity marker")
			}
		}
		if bad {
			return tuple{0, i.newError("vp: filter does not match an output script of the block")}
		}
		return tuple{0, iface{}}
	})
}

// (*gcs.Filter).MatchAny / Match: the GCS matcher is btcd's; a harness
// that works with model filters supplies vpFilterMatchAny(filter, data)
// in the package under test and the engine delegates to it.
func init() {
	delegate := func(single bool) externalFn {
		return func(fr *frame, a []value) value {
			i := fr.i
			hook := i.prog.main.Func("vpFilterMatchAny")
			if hook == nil {
				panic(engineError{"(*gcs.Filter).MatchAny reached but the harness package defines no vpFilterMatchAny"})
			}
			data := a[2]
			if single {
				data = []value{a[2]}
			}
			r := call(i, fr, hook.Pos(), hook, []value{a[0], data})
			return tuple{r, iface{}}
		}
	}
	reg("(*github.com/btcsuite/btcd/btcutil/v2/gcs.Filter).MatchAny", delegate(false))
	reg("(*github.com/btcsuite/btcd/btcutil/v2/gcs.Filter).Match", delegate(true))
}
