package sym

// A pipe to one long-lived SMT solver process (z3 -in by default).

import (
	"bufio"
	"fmt"
	"io"
	"math/big"
	"os"
	"os/exec"
	"strconv"
	"strings"
	"time"
)

type Result int

const (
	Unsat Result = iota
	Sat
	Unknown
)

func (r Result) String() string { return [...]string{"unsat", "sat", "unknown"}[r] }

type Solver struct {
	lines   chan string
	hung    bool
	Name    string
	cmd     *exec.Cmd
	in      io.WriteCloser
	out     *bufio.Reader
	levels  []map[int]bool // ids defined at each scope level
	ufDone  []map[string]bool
	// hash UF applications ("H_*") the solver has seen, per scope level, and
	// those whose axioms (injectivity against every other seen application,
	// never the zero digest) still have to be sent.  Axioms are instantiated
	// lazily: an application that never reaches the solver costs nothing.
	hApps [][]*Term
	hNew  []*Term
	Queries int
	Sats    int
	Unsats  int
	Unknown int
	Errors  int
	Time    time.Duration
	MaxQ    time.Duration
	log     io.Writer
	timeout int // ms
	dead    bool
}

func solverArgv(name string, timeoutMs int) []string {
	switch name {
	case "z3", "z3-new":
		return []string{name, "-in", fmt.Sprintf("-t:%d", timeoutMs)}
	case "cvc5":
		return []string{"cvc5", "--incremental", "--lang=smt2", "--produce-models", fmt.Sprintf("--tlimit-per=%d", timeoutMs)}
	}
	return []string{name}
}

func NewSolver(name string, timeoutMs int, logw io.Writer) (*Solver, error) {
	argv := solverArgv(name, timeoutMs)
	cmd := exec.Command(argv[0], argv[1:]...)
	in, err := cmd.StdinPipe()
	if err != nil {
		return nil, err
	}
	out, err := cmd.StdoutPipe()
	if err != nil {
		return nil, err
	}
	cmd.Stderr = os.Stderr
	if err := cmd.Start(); err != nil {
		return nil, err
	}
	s := &Solver{Name: name, cmd: cmd, in: in, out: bufio.NewReaderSize(out, 1<<16), log: logw, timeout: timeoutMs}
	s.lines = make(chan string, 64)
	go func() {
		for {
			l, err := s.out.ReadString('\n')
			if err != nil {
				close(s.lines)
				return
			}
			s.lines <- l
		}
	}()
	s.levels = []map[int]bool{{}}
	s.ufDone = []map[string]bool{{}}
	if name == "cvc5" {
		s.send("(set-logic ALL)")
	}
	s.send("(set-option :produce-models true)")
	return s, nil
}

func (s *Solver) Close() {
	if s.dead {
		return
	}
	s.dead = true
	if s.hung {
		s.cmd.Wait()
		return
	}
	s.in.Close()
	done := make(chan struct{})
	go func() { s.cmd.Wait(); close(done) }()
	select {
	case <-done:
	case <-time.After(2 * time.Second):
		s.cmd.Process.Kill()
	}
}

func (s *Solver) send(line string) {
	if s.hung {
		panic(engineError{"solver was killed earlier on this path"})
	}
	if s.log != nil {
		fmt.Fprintln(s.log, line)
	}
	if _, err := io.WriteString(s.in, line+"\n"); err != nil {
		panic(engineError{"solver pipe write: " + err.Error()})
	}
}

func (s *Solver) readLine() string {
	// hard watchdog: some queries make the solver spin past its own timeout
	limit := time.Duration(s.timeout)*time.Millisecond + 10*time.Second
	select {
	case l, ok := <-s.lines:
		if !ok {
			panic(engineError{"solver pipe closed"})
		}
		return strings.TrimSpace(l)
	case <-time.After(limit):
		s.hung = true
		s.cmd.Process.Kill()
		panic(engineError{"solver did not answer within its timeout (killed)"})
	}
}

// Hung reports whether the solver process had to be killed.
func (s *Solver) Hung() bool { return s.hung }

func (s *Solver) Push() {
	s.send("(push 1)")
	s.levels = append(s.levels, map[int]bool{})
	s.ufDone = append(s.ufDone, map[string]bool{})
	s.hApps = append(s.hApps, nil)
}

func (s *Solver) Pop() {
	s.send("(pop 1)")
	s.levels = s.levels[:len(s.levels)-1]
	s.ufDone = s.ufDone[:len(s.ufDone)-1]
	s.hApps = s.hApps[:len(s.hApps)-1]
	s.hNew = nil
}

func (s *Solver) Depth() int { return len(s.levels) }

func (s *Solver) isDefined(id int) bool {
	for _, l := range s.levels {
		if l[id] {
			return true
		}
	}
	return false
}

// ref returns the text that refers to t in the solver, emitting any
// declarations / definitions that are needed first.
func (s *Solver) ref(t *Term) string {
	switch t.op {
	case "const":
		return constSMT(t)
	case "var":
		if !s.isDefined(t.id) {
			s.send(fmt.Sprintf("(declare-const %s %s)", smtName(t.name), t.sort))
			s.levels[len(s.levels)-1][t.id] = true
		}
		return smtName(t.name)
	}
	name := fmt.Sprintf("t%d", t.id)
	if s.isDefined(t.id) {
		return name
	}
	if t.op == "uf" {
		found := false
		for _, l := range s.ufDone {
			if l[t.name] {
				found = true
			}
		}
		if !found {
			d := t.st.ufs[t.name]
			var as []string
			for _, a := range d.args {
				as = append(as, a.String())
			}
			s.send(fmt.Sprintf("(declare-fun %s (%s) %s)", smtName(t.name), strings.Join(as, " "), d.ret))
			s.ufDone[len(s.ufDone)-1][t.name] = true
		}
	}
	// iterative post-order would be safer for very deep terms, recursion is fine here
	var sb strings.Builder
	refs := make([]string, len(t.args))
	for i, a := range t.args {
		refs[i] = s.ref(a)
	}
	sb.WriteString("(define-fun ")
	sb.WriteString(name)
	sb.WriteString(" () ")
	sb.WriteString(t.sort.String())
	sb.WriteString(" (")
	sb.WriteString(t.head())
	for _, r := range refs {
		sb.WriteByte(' ')
		sb.WriteString(r)
	}
	sb.WriteString("))")
	s.send(sb.String())
	s.levels[len(s.levels)-1][t.id] = true
	if t.op == "uf" && strings.HasPrefix(t.name, "H_") {
		s.hNew = append(s.hNew, t)
	}
	return name
}

// flushHashAxioms sends the axioms of every hash application that reached
// the solver since the last call.
func (s *Solver) flushHashAxioms() {
	for len(s.hNew) > 0 {
		app := s.hNew[0]
		s.hNew = s.hNew[1:]
		st := app.st
		var axs []*Term
		for _, lvl := range s.hApps {
			for _, prev := range lvl {
				if prev == app {
					continue
				}
				if prev.name == app.name {
					axs = append(axs, st.Implies(st.RawEq(prev, app), st.Eq(prev.args[0], app.args[0])))
				} else {
					axs = append(axs, st.Not(st.RawEq(prev, app)))
				}
			}
		}
		axs = append(axs, st.Not(st.RawEq(app, st.BVConst(0, app.sort.W))))
		if len(s.hApps) == 0 {
			s.hApps = append(s.hApps, nil)
		}
		s.hApps[len(s.hApps)-1] = append(s.hApps[len(s.hApps)-1], app)
		for _, ax := range axs {
			if ax.isTrue() {
				continue
			}
			s.send("(assert " + s.ref(ax) + ")")
		}
	}
}

func (s *Solver) Assert(t *Term) {
	if t.isTrue() {
		return
	}
	r := s.ref(t)
	s.flushHashAxioms()
	s.send("(assert " + r + ")")
}

// Check decides satisfiability of the current assertions plus the
// given assumptions.
var slowQ = func() time.Duration {
	ms, _ := strconv.Atoi(os.Getenv("GOSYM_SLOWQ"))
	return time.Duration(ms) * time.Millisecond
}()

func (s *Solver) Check(assumps ...*Term) Result {
	var lits []string
	for _, a := range assumps {
		if a.isTrue() {
			continue
		}
		if a.isFalse() {
			return Unsat
		}
		if a.op == "not" {
			lits = append(lits, "(not "+s.ref(a.args[0])+")")
		} else {
			lits = append(lits, s.ref(a))
		}
	}
	s.flushHashAxioms()
	start := time.Now()
	// literals must be names: wrap constants/vars are fine too
	if len(lits) == 0 {
		s.send("(check-sat)")
	} else {
		s.send("(check-sat-assuming (" + strings.Join(lits, " ") + "))")
	}
	res := Unknown
	for {
		l := s.readLine()
		if l == "" {
			continue
		}
		switch {
		case l == "sat":
			res = Sat
		case l == "unsat":
			res = Unsat
		case l == "unknown" || l == "timeout":
			res = Unknown
		case strings.HasPrefix(l, "(error"):
			s.Errors++
			fmt.Fprintln(os.Stderr, "solver error:", l)
			continue // the verdict line still follows for z3; treat whole as unknown
		default:
			fmt.Fprintln(os.Stderr, "solver: unexpected output:", l)
			continue
		}
		break
	}
	d := time.Since(start)
	s.Time += d
	if d > s.MaxQ {
		s.MaxQ = d
	}
	s.Queries++
	if slowQ > 0 && d > slowQ {
		var ds []string
		for _, a := range assumps {
			ds = append(ds, clip(a.st.inline(a, 6), 600))
		}
		fmt.Fprintf(os.Stderr, "SLOWQ %v res=%v: %s\n", d, res, strings.Join(ds, " ; "))
	}
	if s.Errors > 0 && res != Unknown {
		// any error since the last check makes the answer inconclusive
		res = Unknown
		s.Errors = 0
	}
	switch res {
	case Sat:
		s.Sats++
	case Unsat:
		s.Unsats++
	default:
		s.Unknown++
	}
	return res
}

// Values returns the model values of the given terms (after a Sat answer).
func (s *Solver) Values(ts []*Term) []*big.Int {
	out := make([]*big.Int, len(ts))
	var idx []int
	var names []string
	for i, t := range ts {
		if t.op == "const" {
			out[i] = t.val
			continue
		}
		names = append(names, s.ref(t))
		idx = append(idx, i)
	}
	if len(names) == 0 {
		return out
	}
	s.send("(get-value (" + strings.Join(names, " ") + "))")
	// read a balanced s-expression
	var sb strings.Builder
	depth := 0
	started := false
	for {
		l := s.readLine()
		sb.WriteString(l)
		sb.WriteByte(' ')
		for _, c := range l {
			if c == '(' {
				depth++
				started = true
			} else if c == ')' {
				depth--
			}
		}
		if started && depth <= 0 {
			break
		}
		if strings.HasPrefix(l, "(error") {
			panic(engineError{"get-value: " + l})
		}
	}
	vals := parseValues(sb.String())
	if len(vals) != len(idx) {
		panic(engineError{fmt.Sprintf("get-value: expected %d values, got %d: %s", len(idx), len(vals), sb.String())})
	}
	for k, i := range idx {
		out[i] = vals[k]
	}
	return out
}

// parseValues parses "((name val) (name val) ...)" where val is
// #x.., #b.., true/false, an integer, or (- n).
func parseValues(s string) []*big.Int {
	toks := tokenize(s)
	var out []*big.Int
	// structure: ( ( name val ) ( name val ) )
	i := 0
	if i < len(toks) && toks[i] == "(" {
		i++
	}
	for i < len(toks) && toks[i] == "(" {
		i++ // (
		// name: may itself be an s-expr such as (not x); skip one sexpr
		i = skipSexpr(toks, i)
		// value
		var v *big.Int
		v, i = parseVal(toks, i)
		out = append(out, v)
		if i < len(toks) && toks[i] == ")" {
			i++
		}
	}
	return out
}

func tokenize(s string) []string {
	var toks []string
	i := 0
	for i < len(s) {
		c := s[i]
		switch {
		case c == ' ' || c == '\n' || c == '\t' || c == '\r':
			i++
		case c == '(' || c == ')':
			toks = append(toks, string(c))
			i++
		case c == '|':
			j := i + 1
			for j < len(s) && s[j] != '|' {
				j++
			}
			toks = append(toks, s[i:j+1])
			i = j + 1
		default:
			j := i
			for j < len(s) && !strings.ContainsRune(" \n\t\r()", rune(s[j])) {
				j++
			}
			toks = append(toks, s[i:j])
			i = j
		}
	}
	return toks
}

func skipSexpr(toks []string, i int) int {
	if toks[i] != "(" {
		return i + 1
	}
	d := 0
	for {
		if toks[i] == "(" {
			d++
		} else if toks[i] == ")" {
			d--
		}
		i++
		if d == 0 {
			return i
		}
	}
}

func parseVal(toks []string, i int) (*big.Int, int) {
	t := toks[i]
	switch {
	case t == "true":
		return big.NewInt(1), i + 1
	case t == "false":
		return big.NewInt(0), i + 1
	case strings.HasPrefix(t, "#x"):
		v, _ := new(big.Int).SetString(t[2:], 16)
		return v, i + 1
	case strings.HasPrefix(t, "#b"):
		v, _ := new(big.Int).SetString(t[2:], 2)
		return v, i + 1
	case t == "(":
		// (- n) or (_ bvN w)
		if toks[i+1] == "-" {
			v, j := parseVal(toks, i+2)
			return new(big.Int).Neg(v), j + 1
		}
		if toks[i+1] == "_" && strings.HasPrefix(toks[i+2], "bv") {
			v, _ := new(big.Int).SetString(toks[i+2][2:], 10)
			return v, i + 5
		}
		j := skipSexpr(toks, i)
		return big.NewInt(0), j
	}
	v, ok := new(big.Int).SetString(t, 10)
	if !ok {
		v = big.NewInt(0)
	}
	return v, i + 1
}
