// Derived from golang.org/x/tools/go/ssa/interp (BSD-style licence, The Go
// Authors), extended with symbolic values, controlled scheduling and
// intercepted library models.

package sym

import (
	"go/constant"
	"fmt"
	"go/token"
	"go/types"
	"os"
	"runtime"
	"slices"
	"strings"

	"golang.org/x/tools/go/ssa"
)

type continuation int

const (
	kNext continuation = iota
	kReturn
	kJump
)

type methodSet map[string]*ssa.Function

// interpreter: state of one path execution.
type interpreter struct {
	prog    *Program
	globals map[*ssa.Global]*value
	p       *path
	sched   *scheduler
	res     *HarnessResult
	trace   bool
	realFns map[string]bool // functions whose model is bypassed (vpOpt "real:<name>")
	// model state
	now       *Term // last value returned by time.Now (seconds)
	objCount  int
	initDone  map[*ssa.Package]bool
	errString types.Type
	funcsSeen map[*ssa.Function]bool
	ext       map[string]any // per-path state of library models
}

type deferred struct {
	fn    value
	args  []value
	instr *ssa.Defer
	tail  *deferred
}

type frame struct {
	i                *interpreter
	caller           *frame
	fn               *ssa.Function
	block, prevBlock *ssa.BasicBlock
	env              map[ssa.Value]value
	locals           []value
	defers           *deferred
	result           value
	panicking        bool
	panic            any
	phitemps         []value
	cur              ssa.Instruction
	symBranches      map[ssa.Instruction]int
}

func deref(t types.Type) types.Type {
	if p, ok := t.Underlying().(*types.Pointer); ok {
		return p.Elem()
	}
	panic(engineError{fmt.Sprintf("deref of non-pointer %v", t)})
}

func (fr *frame) get(key ssa.Value) value {
	switch key := key.(type) {
	case nil:
		return nil
	case *ssa.Function, *ssa.Builtin:
		return key
	case *ssa.Const:
		return constValue(key)
	case *ssa.Global:
		return fr.i.global(key)
	}
	if r, ok := fr.env[key]; ok {
		return r
	}
	panic(engineError{fmt.Sprintf("get: no value for %T: %v", key, key.Name())})
}

func (i *interpreter) global(g *ssa.Global) *value {
	if r, ok := i.globals[g]; ok {
		return r
	}
	cell := zero(deref(g.Type()))
	if g.Pkg != nil {
		if f, ok := globalInits[g.Pkg.Pkg.Path()+"."+g.Name()]; ok {
			cell = f(i)
		} else if !i.initDone[g.Pkg] {
			// A sentinel error (var ErrX = errors.New("...")) of a package whose
			// init is not executed: nil would turn `err != nil` tests around, so
			// the variable gets the value its initialiser gives it.
			if msg, fn := i.prog.sentinelInit(g); fn != nil {
				i.globals[g] = &cell
				cell = call(i, nil, g.Pos(), fn, []value{msg})
				return &cell
			}
		}
	}
	i.globals[g] = &cell
	return &cell
}

type sentinelInfo struct {
	msg string
	fn  *ssa.Function
}

// sentinelInit: if the package initialiser assigns errors.New(<constant>)
// to the error-typed global g, the message and errors.New.
func (p *Program) sentinelInit(g *ssa.Global) (string, *ssa.Function) {
	if v, ok := p.sentinels.Load(g); ok {
		si := v.(sentinelInfo)
		return si.msg, si.fn
	}
	var si sentinelInfo
	if it, ok := deref(g.Type()).Underlying().(*types.Interface); ok && it.NumMethods() == 1 && it.Method(0).Name() == "Error" {
		if init := g.Pkg.Func("init"); init != nil {
			for _, b := range init.Blocks {
				for _, ins := range b.Instrs {
					st, ok := ins.(*ssa.Store)
					if !ok || st.Addr != ssa.Value(g) {
						continue
					}
					c, ok := st.Val.(*ssa.Call)
					if !ok {
						continue
					}
					callee := c.Call.StaticCallee()
					if callee == nil || callee.Pkg == nil || callee.Pkg.Pkg.Path() != "errors" || callee.Name() != "New" || len(c.Call.Args) != 1 {
						continue
					}
					if k, ok := c.Call.Args[0].(*ssa.Const); ok && k.Value != nil && k.Value.Kind() == constant.String {
						si = sentinelInfo{constant.StringVal(k.Value), callee}
					}
				}
			}
		}
	}
	p.sentinels.Store(g, si)
	return si.msg, si.fn
}

// globalInits: initial values of a few library globals whose package
// init functions are not executed.
var globalInits = map[string]func(i *interpreter) value{
	"net.v4InV6Prefix": func(i *interpreter) value {
		return bytesToValues([]byte{0, 0, 0, 0, 0, 0, 0, 0, 0, 0, 0xff, 0xff})
	},
}

func (fr *frame) runDefer(d *deferred) {
	var ok bool
	defer func() {
		if !ok {
			r := recover()
			if isControl(r) {
				panic(r)
			}
			fr.panicking = true
			fr.panic = r
		}
	}()
	call(fr.i, fr, d.instr.Pos(), d.fn, d.args)
	ok = true
}

func isControl(r any) bool {
	switch r.(type) {
	case pathEnd, engineError:
		return true
	case runtime.Error:
		return true // an interpreter bug, not a target panic
	}
	return false
}

func (fr *frame) runDefers() {
	for d := fr.defers; d != nil; d = d.tail {
		fr.runDefer(d)
	}
	fr.defers = nil
	if fr.panicking {
		panic(fr.panic)
	}
}

func lookupMethod(i *interpreter, typ types.Type, meth *types.Func) *ssa.Function {
	return i.prog.ssa.LookupMethod(typ, meth.Pkg(), meth.Name())
}

func (fr *frame) pos() string {
	if fr.cur != nil && fr.cur.Pos() != token.NoPos {
		return fr.i.prog.ssa.Fset.Position(fr.cur.Pos()).String()
	}
	return fr.fn.String()
}

func (fr *frame) stack() string {
	var sb strings.Builder
	for f := fr; f != nil; f = f.caller {
		fmt.Fprintf(&sb, "\n\tat %s (%s)", f.fn.String(), f.pos())
	}
	return sb.String()
}

func visitInstr(fr *frame, instr ssa.Instruction) continuation {
	fr.cur = instr
	fr.i.p.instrs++
	if fr.i.p.instrs > fr.i.prog.opts.MaxInstrs {
		panic(unwindExceeded{"instruction budget exceeded in " + fr.fn.String()})
	}
	switch instr := instr.(type) {
	case *ssa.DebugRef:
		// no-op

	case *ssa.UnOp:
		fr.env[instr] = fr.unop(instr, fr.get(instr.X))

	case *ssa.BinOp:
		fr.env[instr] = fr.i.binop(instr.Op, instr.X.Type(), fr.get(instr.X), fr.get(instr.Y))

	case *ssa.Call:
		fn, args := prepareCall(fr, &instr.Call)
		fr.env[instr] = call(fr.i, fr, instr.Pos(), fn, args)

	case *ssa.ChangeInterface:
		fr.env[instr] = fr.get(instr.X)

	case *ssa.ChangeType:
		fr.env[instr] = fr.get(instr.X)

	case *ssa.Convert:
		fr.env[instr] = fr.i.conv(instr.Type(), instr.X.Type(), fr.get(instr.X))

	case *ssa.MultiConvert:
		fr.env[instr] = fr.i.conv(instr.Type(), instr.X.Type(), fr.get(instr.X))

	case *ssa.SliceToArrayPointer:
		fr.env[instr] = sliceToArrayPointer(instr.Type(), instr.X.Type(), fr.get(instr.X))

	case *ssa.MakeInterface:
		fr.env[instr] = iface{t: instr.X.Type(), v: fr.get(instr.X)}

	case *ssa.Extract:
		fr.env[instr] = fr.get(instr.Tuple).(tuple)[instr.Index]

	case *ssa.Slice:
		fr.env[instr] = fr.i.slice(fr.get(instr.X), fr.get(instr.Low), fr.get(instr.High), fr.get(instr.Max))

	case *ssa.Return:
		switch len(instr.Results) {
		case 0:
		case 1:
			fr.result = fr.get(instr.Results[0])
		default:
			var res []value
			for _, r := range instr.Results {
				res = append(res, fr.get(r))
			}
			fr.result = tuple(res)
		}
		fr.block = nil
		return kReturn

	case *ssa.RunDefers:
		fr.runDefers()

	case *ssa.Panic:
		panic(targetPanic{v: fr.get(instr.X)})

	case *ssa.Send:
		fr.i.sched.send(asChan(fr.get(instr.Chan)), copyVal(fr.get(instr.X)))

	case *ssa.Store:
		addr := fr.get(instr.Addr).(*value)
		if addr == nil {
			panic(targetPanic{v: runtimeErr("invalid memory address or nil pointer dereference")})
		}
		store(deref(instr.Addr.Type()), addr, fr.get(instr.Val))

	case *ssa.If:
		succ := 1
		c := fr.get(instr.Cond)
		switch c := c.(type) {
		case bool:
			if c {
				succ = 0
			}
		case *Term:
			if fr.symBranches == nil {
				fr.symBranches = map[ssa.Instruction]int{}
			}
			fr.symBranches[instr]++
			if n := fr.symBranches[instr]; n > fr.i.prog.opts.Unwind {
				panic(unwindExceeded{fmt.Sprintf("unwind bound %d exceeded at %s", fr.i.prog.opts.Unwind, fr.pos())})
			}
			if fr.i.p.branch(c, fr.pos()) {
				succ = 0
			}
		default:
			panic(engineError{fmt.Sprintf("If on %T", c)})
		}
		fr.prevBlock, fr.block = fr.block, fr.block.Succs[succ]
		return kJump

	case *ssa.Jump:
		fr.prevBlock, fr.block = fr.block, fr.block.Succs[0]
		return kJump

	case *ssa.Defer:
		fn, args := prepareCall(fr, &instr.Call)
		defers := &fr.defers
		if into := fr.get(instr.DeferStack); into != nil {
			defers = into.(**deferred)
		}
		*defers = &deferred{fn: fn, args: args, instr: instr, tail: *defers}

	case *ssa.Go:
		fn, args := prepareCall(fr, &instr.Call)
		i := fr.i
		pos := instr.Pos()
		name := fmt.Sprint(instr.Call.Value.Name())
		i.sched.spawn(name, func() {
			call(i, nil, pos, fn, args)
		})
		i.sched.yield("go")

	case *ssa.MakeChan:
		n := fr.i.asInt(fr.get(instr.Size), "chan size")
		fr.env[instr] = newChannel(int(n), instr.Type().Underlying().(*types.Chan).Elem())

	case *ssa.Alloc:
		var addr *value
		if instr.Heap {
			addr = new(value)
			fr.env[instr] = addr
		} else {
			addr = fr.env[instr].(*value)
		}
		*addr = zero(deref(instr.Type()))

	case *ssa.MakeSlice:
		c := fr.i.asInt(fr.get(instr.Cap), "makeslice cap")
		l := fr.i.asInt(fr.get(instr.Len), "makeslice len")
		if l < 0 || c < l || c > 1<<24 {
			panic(targetPanic{v: runtimeErr("makeslice: len out of range")})
		}
		slice := make([]value, c)
		tElt := instr.Type().Underlying().(*types.Slice).Elem()
		for i := range slice {
			slice[i] = zero(tElt)
		}
		fr.env[instr] = slice[:l]

	case *ssa.MakeMap:
		fr.env[instr] = newSMap(instr.Type().Underlying().(*types.Map))

	case *ssa.Range:
		fr.env[instr] = fr.i.rangeIter(fr.get(instr.X))

	case *ssa.Next:
		fr.env[instr] = fr.get(instr.Iter).(iter).next()

	case *ssa.FieldAddr:
		p := fr.get(instr.X).(*value)
		if p == nil {
			panic(targetPanic{v: runtimeErr("invalid memory address or nil pointer dereference")})
		}
		fr.env[instr] = &(*p).(structure)[instr.Field]

	case *ssa.Field:
		fr.env[instr] = fr.get(instr.X).(structure)[instr.Field]

	case *ssa.IndexAddr:
		x := fr.get(instr.X)
		switch x := x.(type) {
		case []value:
			idx := fr.i.index(fr.get(instr.Index), len(x))
			fr.env[instr] = &x[idx]
		case *value: // *array
			if x == nil {
				panic(targetPanic{v: runtimeErr("invalid memory address or nil pointer dereference")})
			}
			a := (*x).(array)
			idx := fr.i.index(fr.get(instr.Index), len(a))
			fr.env[instr] = &a[idx]
		default:
			panic(engineError{fmt.Sprintf("unexpected x type in IndexAddr: %T", x)})
		}

	case *ssa.Index:
		x := fr.get(instr.X)
		switch x := x.(type) {
		case array:
			idx := fr.i.index(fr.get(instr.Index), len(x))
			fr.env[instr] = copyVal(x[idx])
		case string:
			idx := fr.i.index(fr.get(instr.Index), len(x))
			fr.env[instr] = x[idx]
		default:
			panic(engineError{fmt.Sprintf("unexpected x type in Index: %T", x)})
		}

	case *ssa.Lookup:
		fr.env[instr] = fr.i.lookup(instr, fr.get(instr.X), fr.get(instr.Index))

	case *ssa.MapUpdate:
		m := fr.get(instr.Map).(*smap)
		if m == nil {
			panic(targetPanic{v: runtimeErr("assignment to entry in nil map")})
		}
		m.insert(fr.i, fr.get(instr.Key), copyVal(fr.get(instr.Value)))

	case *ssa.TypeAssert:
		fr.env[instr] = typeAssert(instr, fr.get(instr.X).(iface))

	case *ssa.MakeClosure:
		var bindings []value
		for _, binding := range instr.Bindings {
			bindings = append(bindings, fr.get(binding))
		}
		fr.env[instr] = &closure{instr.Fn.(*ssa.Function), bindings}

	case *ssa.Phi:
		panic(engineError{"unreachable: phi"})

	case *ssa.Select:
		var cases []selCase
		for _, state := range instr.States {
			c := selCase{ch: asChan(fr.get(state.Chan)), send: state.Dir == types.SendOnly}
			if state.Send != nil {
				c.val = copyVal(fr.get(state.Send))
			}
			cases = append(cases, c)
		}
		chosen, recv, recvOk := fr.i.sched.selectOp(cases, !instr.Blocking)
		r := tuple{chosen, recvOk}
		for i, st := range instr.States {
			if st.Dir == types.RecvOnly {
				var v value
				if i == chosen && recvOk {
					v = recv
				} else {
					v = zero(st.Chan.Type().Underlying().(*types.Chan).Elem())
				}
				r = append(r, v)
			}
		}
		fr.env[instr] = r

	default:
		panic(engineError{fmt.Sprintf("unexpected instruction: %T", instr)})
	}
	return kNext
}

func asChan(v value) *channel {
	if v == nil {
		return nil
	}
	return v.(*channel)
}

// copyVal makes an unaliased copy of aggregate values (struct/array).
func copyVal(v value) value {
	switch v := v.(type) {
	case structure:
		a := make(structure, len(v))
		for i := range v {
			a[i] = copyVal(v[i])
		}
		return a
	case array:
		a := make(array, len(v))
		for i := range v {
			a[i] = copyVal(v[i])
		}
		return a
	}
	return v
}

type unwindExceeded struct{ msg string }

// logger-like interface types whose method calls are skipped.
func isLoggerType(t types.Type) bool {
	if n, ok := t.(*types.Named); ok {
		if n.Obj().Pkg() != nil && n.Obj().Pkg().Path() == "github.com/btcsuite/btclog" && n.Obj().Name() == "Logger" {
			return true
		}
	}
	return false
}

type skipCall struct{ sig *types.Signature }

func prepareCall(fr *frame, call *ssa.CallCommon) (fn value, args []value) {
	if call.Method != nil && isLoggerType(call.Value.Type()) {
		return skipCall{call.Method.Type().(*types.Signature)}, nil
	}
	v := fr.get(call.Value)
	if call.Method == nil {
		fn = v
	} else {
		recv := v.(iface)
		if recv.t == nil {
			panic(targetPanic{v: runtimeErr("invalid memory address or nil pointer dereference (method " + call.Method.Name() + " on nil interface)")})
		}
		if f := lookupMethod(fr.i, recv.t, call.Method); f == nil {
			panic(engineError{fmt.Sprintf("method set for dynamic type %v does not contain %s", recv.t, call.Method)})
		} else {
			fn = f
		}
		args = append(args, recv.v)
	}
	for _, arg := range call.Args {
		args = append(args, fr.get(arg))
	}
	return
}

func call(i *interpreter, caller *frame, callpos token.Pos, fn value, args []value) value {
	switch fn := fn.(type) {
	case *ssa.Function:
		if fn == nil {
			panic(targetPanic{v: runtimeErr("invalid memory address or nil pointer dereference (call of nil func)")})
		}
		return callSSA(i, caller, callpos, fn, args, nil)
	case *closure:
		return callSSA(i, caller, callpos, fn.Fn, args, fn.Env)
	case *ssa.Builtin:
		return callBuiltin(i, caller, fn, args)
	case skipCall:
		return zeroResults(fn.sig)
	case *nativeFunc:
		return fn.f(i, caller, args)
	}
	panic(engineError{fmt.Sprintf("cannot call %T", fn)})
}

// nativeFunc is a func value implemented by the engine.
type nativeFunc struct {
	name string
	f    func(i *interpreter, caller *frame, args []value) value
}

func zeroResults(sig *types.Signature) value {
	switch sig.Results().Len() {
	case 0:
		return nil
	case 1:
		return zero(sig.Results().At(0).Type())
	}
	return zero(sig.Results())
}

func callSSA(i *interpreter, caller *frame, callpos token.Pos, fn *ssa.Function, args []value, env []value) value {
	fr := &frame{i: i, caller: caller, fn: fn}
	if caller != nil && depth(caller) > 400 {
		panic(unwindExceeded{"call depth exceeded at " + fn.String()})
	}
	if fn.Name() == "init" && fn.Synthetic != "" && fn.Pkg != nil && fn.Signature.Recv() == nil {
		if !i.prog.initAllowed(fn.Pkg.Pkg.Path()) {
			return nil
		}
	}
	if ext := i.prog.lookupExternal(fn); ext != nil && !(i.realFns != nil && i.realFns[fn.Name()] && fn.Blocks != nil) {
		if i.trace {
			fmt.Fprintf(os.Stderr, "%*sext %s\n", depth(caller), "", fn)
		}
		fr.cur = nil
		return ext(fr, args)
	}
	if fn.Blocks == nil {
		st := ""
		if caller != nil {
			st = caller.stack()
		}
		panic(engineError{"no code for function: " + fn.String() + st})
	}
	if fn.TypeParams().Len() > 0 && len(fn.TypeArgs()) == 0 {
		panic(engineError{"uninstantiated generic " + fn.String()})
	}
	if i.trace {
		fmt.Fprintf(os.Stderr, "%*scall %s\n", depth(caller), "", fn)
	}
	if !i.funcsSeen[fn] {
		i.funcsSeen[fn] = true
	}
	fr.env = make(map[ssa.Value]value)
	fr.block = fn.Blocks[0]
	fr.locals = make([]value, len(fn.Locals))
	for i, l := range fn.Locals {
		fr.locals[i] = zero(deref(l.Type()))
		fr.env[l] = &fr.locals[i]
	}
	for i, p := range fn.Params {
		fr.env[p] = args[i]
	}
	for i, fv := range fn.FreeVars {
		fr.env[fv] = env[i]
	}
	for fr.block != nil {
		runFrame(fr)
	}
	return fr.result
}

func depth(fr *frame) int {
	n := 0
	for ; fr != nil; fr = fr.caller {
		n++
	}
	return n
}

func posOf(fr *frame) string {
	if fr == nil {
		return "?"
	}
	return fr.fn.String() + " " + fr.pos()
}

func runFrame(fr *frame) {
	defer func() {
		if fr.block == nil {
			return // normal return
		}
		r := recover()
		if isControl(r) {
			if re, ok := r.(runtime.Error); ok {
				// interpreter bug or unsupported symbolic operation
				buf := make([]byte, 4096)
				n := runtime.Stack(buf, false)
				panic(engineError{fmt.Sprintf("interpreter runtime error: %v%s\n%s", re, fr.stack(), buf[:n])})
			}
			panic(r)
		}
		if ue, ok := r.(unwindExceeded); ok {
			panic(ue)
		}
		if tp, ok := r.(targetPanic); ok && tp.where == "" {
			tp.where = fr.stack()
			r = tp
		}
		fr.panicking = true
		fr.panic = r
		fr.runDefers()
		fr.block = fr.fn.Recover
	}()

	for {
		nonPhis := executePhis(fr)
		for _, instr := range nonPhis {
			if visitInstr(fr, instr) == kReturn {
				return
			}
		}
	}
}

func executePhis(fr *frame) []ssa.Instruction {
	firstNonPhi := -1
	for i, instr := range fr.block.Instrs {
		if _, ok := instr.(*ssa.Phi); !ok {
			firstNonPhi = i
			break
		}
	}
	nonPhis := fr.block.Instrs[firstNonPhi:]
	if firstNonPhi > 0 {
		phis := fr.block.Instrs[:firstNonPhi]
		predIndex := slices.Index(fr.block.Preds, fr.prevBlock)
		fr.phitemps = fr.phitemps[:0]
		for _, phi := range phis {
			phi := phi.(*ssa.Phi)
			fr.phitemps = append(fr.phitemps, fr.get(phi.Edges[predIndex]))
		}
		for i, phi := range phis {
			fr.env[phi.(*ssa.Phi)] = fr.phitemps[i]
		}
	}
	return nonPhis
}

func doRecover(caller *frame) value {
	if caller != nil && !caller.panicking &&
		caller.caller != nil && caller.caller.panicking {
		caller.caller.panicking = false
		p := caller.caller.panic
		caller.caller.panic = nil
		switch p := p.(type) {
		case targetPanic:
			if _, ok := p.v.(iface); ok {
				return p.v
			}
			return iface{types.Typ[types.String], fmt.Sprint(p.v)}
		default:
			panic(engineError{fmt.Sprintf("unexpected panic type %T in target call to recover(): %v", p, p)})
		}
	}
	return iface{}
}

// runtimeErr builds the value carried by run-time panics.
type runtimeErr string

func (e runtimeErr) String() string { return "runtime error: " + string(e) }
