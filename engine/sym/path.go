package sym

// Path exploration by re-execution: a path is identified by the list of
// decisions taken at every nondeterministic choice point.  New prefixes
// discovered at a choice point are pushed onto a shared work list.

import (
	"fmt"
	"math/big"
	"os"
	"sort"
	"strings"
	"sync"
	"time"
)

var debugSites = os.Getenv("GOSYM_DEBUG_SITE")

// control-flow panics of the engine
type pathEnd struct {
	verdict string // "infeasible", "assume-false", "killed"
	msg     string
}

// engineError: the engine cannot handle something (unsupported feature,
// solver failure).  Never a property verdict.
type engineError struct{ msg string }

func (e engineError) Error() string { return "engine: " + e.msg }

// vpVar is one logged symbolic input of a path.
type vpVar struct {
	Label string
	Seq   int
	Kind  string // "u8","u16","u32","u64","i32","i64","bool","range","bytes","choice"
	T     *Term  // nil when concrete
	Conc  *big.Int
	N     int // for bytes: number of bytes; for choice: arity
}

type Violation struct {
	Harness string            `json:"harness"`
	Label   string            `json:"assert"`
	Kind    string            `json:"kind"` // assert | panic | deadlock | unwind
	Msg     string            `json:"msg,omitempty"`
	KF      string            `json:"known_finding,omitempty"`
	Values  []ReplayValue     `json:"values"`
	Sched   []int             `json:"schedule,omitempty"`
	Decs    []int             `json:"decisions"`
	Extra   map[string]string `json:"extra,omitempty"`
}

type ReplayValue struct {
	Label string `json:"label"`
	Seq   int    `json:"seq"`
	Kind  string `json:"kind"`
	Value string `json:"value"` // decimal, or hex for bytes
}

type path struct {
	w        *worker
	decs     []int // decisions (prefix given + extended during the run)
	engineChoice bool // the path depends on a scheduling / select / timer / map-order choice
	violated bool // a violation was reported on this path
	prefix   int   // length of the forced prefix
	pos      int
	pc       []*Term
	vars     []vpVar
	seq      map[string]int
	reached  map[string]bool
	instrs   int64
	unwinds  map[string]int
	mapOrder bool // explore all map iteration orders
	globalOrder bool   // one global key order for all string-keyed maps
	keyOrder    []string
	schedAll bool // tier C: nondeterministic choice at every sync op
	preempt  int  // remaining preemptions
	sched    []int
	ufApps   map[string][]*Term
	notes    []string
	sched_   *scheduler
	ended    bool
	pending  []pendingAssert
	concreteClock bool
	clockTicks    int64
	timeStep int // max seconds between two consecutive time.Now readings (0 = unbounded)
	known    map[int]bool // literal term id -> truth value implied syntactically by the path condition
}

// learn records the literals that c makes true.
func (p *path) learn(c *Term) {
	if p.known == nil {
		p.known = map[int]bool{}
	}
	switch c.op {
	case "and":
		for _, a := range c.args {
			p.learn(a)
		}
		return
	case "not":
		p.known[c.args[0].id] = false
		if c.args[0].op == "or" {
			for _, a := range c.args[0].args {
				p.learn(p.st().Not(a))
			}
		}
	}
	p.known[c.id] = true
}

// decided reports whether the truth of c follows syntactically from the
// path condition.
func (p *path) decided(c *Term) (val bool, ok bool) {
	return p.decidedD(c, 4)
}

func (p *path) decidedD(c *Term, depth int) (val bool, ok bool) {
	if c.isTrue() {
		return true, true
	}
	if c.isFalse() {
		return false, true
	}
	if v, ok := p.known[c.id]; ok {
		return v, true
	}
	if depth == 0 {
		return false, false
	}
	switch c.op {
	case "not":
		if v, ok := p.decidedD(c.args[0], depth-1); ok {
			return !v, true
		}
	case "and":
		all := true
		for _, a := range c.args {
			v, ok := p.decidedD(a, depth-1)
			if ok && !v {
				return false, true
			}
			if !ok {
				all = false
			}
		}
		if all {
			return true, true
		}
	case "or":
		all := true
		for _, a := range c.args {
			v, ok := p.decidedD(a, depth-1)
			if ok && v {
				return true, true
			}
			if !ok {
				all = false
			}
		}
		if all {
			return false, true
		}
	}
	return false, false
}

// addPCnoSolver records facts the solver has just proved to follow from
// the path condition (no need to assert them).
func (p *path) addPCnoSolver(c *Term) {
	p.learn(c)
}

// addPC appends c to the path condition and tells the solver.
func (p *path) addPC(c *Term) {
	p.pc = append(p.pc, c)
	p.learn(c)
	p.w.solver.Assert(c)
}

func (p *path) st() *Store { return p.w.st }

// assume adds c to the path condition; ends the path if it becomes infeasible.
func (p *path) assume(c *Term, check bool) {
	if c.isTrue() {
		return
	}
	if c.isFalse() {
		panic(pathEnd{"assume-false", ""})
	}
	if v, ok := p.decided(c); ok {
		if !v {
			panic(pathEnd{"assume-false", ""})
		}
		return
	}
	if check {
		switch p.w.solver.Check(c) {
		case Unsat:
			panic(pathEnd{"assume-false", ""})
		case Unknown:
			p.w.stats.unknownFeas++
		}
	}
	p.addPC(c)
}

// choose picks one of n options.  conds[i] (may be nil = true) is the
// condition under which option i is possible.  Returns the option taken
// on this path; the alternatives are queued.
func (p *path) choose(n int, conds []*Term, what string) int {
	if n == 1 && (conds == nil || conds[0] == nil) {
		return 0
	}
	switch what {
	case "sched", "select", "timer", "timer-pick", "map order", "global map order":
		// an engine-side choice the native runtime cannot be forced to repeat
		p.engineChoice = true
	}
	if p.pos < len(p.decs) {
		d := p.decs[p.pos]
		p.pos++
		if d >= n {
			panic(engineError{fmt.Sprintf("replay divergence at decision %d (%s): %d >= %d", p.pos-1, what, d, n)})
		}
		if conds != nil && conds[d] != nil {
			// forced decision: feasibility was established when it was queued
			if v, ok := p.decided(conds[d]); !ok || !v {
				p.addPC(conds[d])
			}
		}
		return d
	}
	// exploration: find feasible options
	var feas []int
	for i := 0; i < n; i++ {
		if conds == nil || conds[i] == nil {
			feas = append(feas, i)
			continue
		}
		if v, ok := p.decided(conds[i]); ok {
			if v {
				feas = append(feas, i)
			}
			continue
		}
		// shortcut: if all others were infeasible and pc is sat, the last must be feasible
		if i == n-1 && len(feas) == 0 && p.exhaustive(conds) {
			feas = append(feas, i)
			continue
		}
		p.w.sites[what]++
		if debugSites != "" && strings.Contains(what, debugSites) && p.w.sites[what] <= 6 {
			c := conds[i]
			fmt.Fprintf(os.Stderr, "QUERY at %s: id=%d op=%s", what, c.id, c.op)
			for _, a := range c.args {
				_, k := p.known[a.id]
				fmt.Fprintf(os.Stderr, " [arg id=%d op=%s known=%v]", a.id, a.op, k)
				for _, b := range a.args {
					_, k := p.known[b.id]
					fmt.Fprintf(os.Stderr, " {id=%d op=%s known=%v %s}", b.id, b.op, k, clip(p.st().inline(b, 3), 200))
				}
			}
			var ks []int
			for id, v := range p.known {
				if !v {
					ks = append(ks, id)
				}
			}
			fmt.Fprintf(os.Stderr, " knownFalse=%v\n", ks)
		}
		switch p.w.solver.Check(conds[i]) {
		case Sat:
			feas = append(feas, i)
		case Unknown:
			p.w.stats.unknownFeas++
			feas = append(feas, i)
		}
	}
	if len(feas) == 0 {
		panic(pathEnd{"infeasible", what})
	}
	base := append([]int(nil), p.decs[:p.pos]...)
	for _, alt := range feas[1:] {
		np := append(append([]int(nil), base...), alt)
		p.w.ex.enqueue(np)
	}
	d := feas[0]
	p.decs = append(p.decs, d)
	p.pos++
	if conds != nil && conds[d] != nil {
		if v, ok := p.decided(conds[d]); !ok || !v {
			p.addPC(conds[d])
		}
	}
	return d
}

// exhaustive reports whether conds is syntactically {c, not c}.
func (p *path) exhaustive(conds []*Term) bool {
	if len(conds) != 2 || conds[0] == nil || conds[1] == nil {
		return false
	}
	return p.st().Not(conds[0]) == conds[1]
}

// branch decides a symbolic condition.
func (p *path) branch(c *Term, what string) bool {
	if v, ok := p.decided(c); ok {
		return v
	}
	st := p.st()
	return p.choose(2, []*Term{c, st.Not(c)}, what) == 0
}

// concretize returns a concrete value for t, forking over all feasible
// values (at most limit).
func (p *path) concretize(t *Term, limit int, what string) *big.Int {
	if t.op == "const" {
		return t.val
	}
	st := p.st()
	// replay mode: decisions encode "index into the list of values found".
	// To stay deterministic we enumerate values in increasing order using
	// the solver: v0 = min model...  Simpler: binary decisions
	// "t == model value?" where the model value is recomputed
	// deterministically from the same solver state.
	for k := 0; ; k++ {
		if k > limit {
			panic(engineError{fmt.Sprintf("concretize(%s): more than %d values for %v", what, limit, t)})
		}
		var v *big.Int
		if p.pos < len(p.decs) {
			// replay: the value is stored in the decision stream as two entries
			d := p.decs[p.pos]
			if d == 1 {
				// "not equal to a previously enumerated value": value stored next
				p.pos++
				ex := p.decs[p.pos]
				p.pos++
				vv := big.NewInt(int64(ex))
				c := st.Not(st.Eq(t, p.constLike(t, vv)))
				p.addPC(c)
				continue
			}
			// d == 0: equal to the value stored next
			p.pos++
			ex := p.decs[p.pos]
			p.pos++
			v = big.NewInt(int64(ex))
			c := st.Eq(t, p.constLike(t, v))
			p.addPC(c)
			return v
		}
		r := p.w.solver.Check()
		if r != Sat {
			if r == Unknown {
				panic(engineError{"concretize: solver unknown for " + what})
			}
			panic(pathEnd{"infeasible", "concretize " + what})
		}
		v = p.w.solver.Values([]*Term{t})[0]
		if !v.IsInt64() || v.Int64() > 1<<40 {
			panic(engineError{fmt.Sprintf("concretize(%s): value too large %v", what, v)})
		}
		eq := st.Eq(t, p.constLike(t, v))
		ne := st.Not(eq)
		base := append([]int(nil), p.decs[:p.pos]...)
		// alternative: t != v (if feasible)
		if p.w.solver.Check(ne) != Unsat {
			np := append(append([]int(nil), base...), 1, int(v.Int64()))
			p.w.ex.enqueue(np)
		}
		p.decs = append(p.decs, 0, int(v.Int64()))
		p.pos += 2
		p.addPC(eq)
		return v
	}
}

func (p *path) constLike(t *Term, v *big.Int) *Term {
	switch t.sort.K {
	case SBV:
		return p.st().BVConstBig(v, t.sort.W)
	case SInt:
		return p.st().IntConst(v)
	}
	return p.st().Bool(v.Sign() != 0)
}

// model returns replay values for every logged vp variable under the
// current solver model (call right after a Sat answer).
func (p *path) model() []ReplayValue {
	var ts []*Term
	for _, v := range p.vars {
		if v.T != nil {
			ts = append(ts, v.T)
		}
	}
	vals := p.w.solver.Values(ts)
	var out []ReplayValue
	k := 0
	for _, v := range p.vars {
		rv := ReplayValue{Label: v.Label, Seq: v.Seq, Kind: v.Kind}
		var val *big.Int
		if v.T != nil {
			val = vals[k]
			k++
		} else {
			val = v.Conc
		}
		if v.Kind == "bytes" {
			rv.Value = fmt.Sprintf("%0*s", 2*v.N, val.Text(16))
		} else if v.Kind == "i32" || v.Kind == "i64" || v.Kind == "i8" || v.Kind == "i16" {
			w := map[string]int{"i8": 8, "i16": 16, "i32": 32, "i64": 64}[v.Kind]
			s := new(big.Int).Set(val)
			if s.Bit(w-1) == 1 {
				s.Sub(s, new(big.Int).Lsh(bigOne, uint(w)))
			}
			rv.Value = s.String()
		} else {
			rv.Value = val.String()
		}
		out = append(out, rv)
	}
	return out
}

// ---- explorer ----

type Stats struct {
	Paths        int64
	Completed    int64
	Infeasible   int64
	AssumeFalse  int64
	Instrs       int64
	Queries      int
	SolverTime   time.Duration
	MaxQuery     time.Duration
	unknownFeas  int
	UnknownFeas  int
	PropQueries  int
	PropUnsat    int
	PropSat      int
	PropUnknown  int
	PropConcrete int // assertions that were concretely true on a path
	Panics       int64
	Deadlocks    int64
}

type explorer struct {
	mu        sync.Mutex
	cond      *sync.Cond
	queue     [][]int
	active    int
	stop      bool
	maxPaths  int64
	started   int64
	truncated bool

	prog   *Program
	fn     string
	opts   RunOpts
	result *HarnessResult
}

func (ex *explorer) enqueue(p []int) {
	ex.mu.Lock()
	ex.queue = append(ex.queue, p)
	ex.mu.Unlock()
	ex.cond.Signal()
}

func (ex *explorer) take() ([]int, bool) {
	ex.mu.Lock()
	defer ex.mu.Unlock()
	for {
		if ex.stop {
			return nil, false
		}
		if len(ex.queue) > 0 {
			if ex.maxPaths > 0 && ex.started >= ex.maxPaths {
				ex.truncated = true
				ex.stop = true
				ex.cond.Broadcast()
				return nil, false
			}
			// depth-first: take the most recent
			p := ex.queue[len(ex.queue)-1]
			ex.queue = ex.queue[:len(ex.queue)-1]
			ex.active++
			ex.started++
			return p, true
		}
		if ex.active == 0 {
			ex.cond.Broadcast()
			return nil, false
		}
		ex.cond.Wait()
	}
}

func (ex *explorer) done() {
	ex.mu.Lock()
	ex.active--
	ex.mu.Unlock()
	ex.cond.Broadcast()
}

func (ex *explorer) abort() {
	ex.mu.Lock()
	ex.stop = true
	ex.mu.Unlock()
	ex.cond.Broadcast()
}

// HarnessResult aggregates everything found while exploring one harness.
type HarnessResult struct {
	mu         sync.Mutex
	Harness    string
	Stats      Stats
	Violations []Violation        // first counterexample per label
	violSeen   map[string]int     // label -> count
	Reached    map[string]int     // vpReach / assertion-site labels -> number of paths
	AssertsOK  map[string]int     // label -> times discharged (unsat or concretely true)
	EngineErrs []string           // unsupported / solver problems
	Samples    []string           // sample obligations
	PassReplays []Violation       // a few completed, violation-free paths with a model of their inputs: replayed natively to validate the translation (Label = reached labels, comma separated)
	PathSamples []string          // inputs of a few completed paths (ranges chosen, symbolic variables left universally quantified) and the labels they reached
	Unwind     map[string]int     // loop label -> max count seen
	Truncated  bool               // path budget exhausted
	Wall       time.Duration
	Funcs      map[string]bool    // functions executed (SSA names)
	Known      map[string]int     // known-finding id -> times hit
	KnownCex   map[string]Violation
	Notes      map[string]int
	QuerySites map[string]int
}

func newHarnessResult(name string) *HarnessResult {
	return &HarnessResult{Harness: name, violSeen: map[string]int{}, Reached: map[string]int{},
		AssertsOK: map[string]int{}, Unwind: map[string]int{}, Funcs: map[string]bool{},
		Known: map[string]int{}, KnownCex: map[string]Violation{}, Notes: map[string]int{}, QuerySites: map[string]int{}}
}

func (r *HarnessResult) addViolation(v Violation) {
	r.mu.Lock()
	defer r.mu.Unlock()
	key := v.Kind + ":" + v.Label
	r.violSeen[key]++
	if r.violSeen[key] <= 3 {
		r.Violations = append(r.Violations, v)
	}
}

func (r *HarnessResult) addKnown(id string, v Violation) {
	r.mu.Lock()
	defer r.mu.Unlock()
	r.Known[id]++
	if _, ok := r.KnownCex[id]; !ok {
		r.KnownCex[id] = v
	}
}

func (r *HarnessResult) engineErr(msg string) {
	r.mu.Lock()
	defer r.mu.Unlock()
	for _, e := range r.EngineErrs {
		if e == msg {
			return
		}
	}
	if len(r.EngineErrs) < 50 {
		r.EngineErrs = append(r.EngineErrs, msg)
	}
}

func (r *HarnessResult) ViolationLabels() []string {
	var ls []string
	for k := range r.violSeen {
		ls = append(ls, k)
	}
	sort.Strings(ls)
	return ls
}

func (r *HarnessResult) Summary() string {
	var sb strings.Builder
	fmt.Fprintf(&sb, "%s: paths=%d completed=%d infeasible=%d instrs=%d queries=%d solver=%.2fs propQ=%d(unsat=%d sat=%d unknown=%d concrete=%d) wall=%.1fs",
		r.Harness, r.Stats.Paths, r.Stats.Completed, r.Stats.Infeasible+r.Stats.AssumeFalse, r.Stats.Instrs,
		r.Stats.Queries, r.Stats.SolverTime.Seconds(), r.Stats.PropQueries, r.Stats.PropUnsat, r.Stats.PropSat,
		r.Stats.PropUnknown, r.Stats.PropConcrete, r.Wall.Seconds())
	return sb.String()
}
