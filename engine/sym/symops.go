package sym

// Symbolic counterparts of the arithmetic / conversion / indexing
// primitives.

import (
	"fmt"
	"go/token"
	"go/types"
	"math/big"

	"golang.org/x/tools/go/ssa"
)

func basicOf(t types.Type) *types.Basic {
	if t == nil {
		return nil
	}
	b, _ := t.Underlying().(*types.Basic)
	return b
}

func isSigned(t types.Type) bool {
	b := basicOf(t)
	return b != nil && b.Info()&types.IsInteger != 0 && b.Info()&types.IsUnsigned == 0
}

func widthOf(t types.Type) int {
	b := basicOf(t)
	if b == nil {
		return 0
	}
	switch b.Kind() {
	case types.Int8, types.Uint8:
		return 8
	case types.Int16, types.Uint16:
		return 16
	case types.Int32, types.Uint32:
		return 32
	case types.Int, types.Uint, types.Int64, types.Uint64, types.Uintptr, types.UntypedInt:
		return 64
	case types.UntypedRune:
		return 32
	}
	return 0
}

// termToValue converts constant terms back to native Go values of type t.
func termToValue(t *Term, typ types.Type) value {
	if t.op != "const" {
		return t
	}
	if t.sort.K == SBool {
		return t.val.Sign() != 0
	}
	if t.sort.K != SBV {
		return t
	}
	b := basicOf(typ)
	if b == nil {
		return t
	}
	u := t.val.Uint64()
	switch b.Kind() {
	case types.Int:
		return int(int64(u))
	case types.Int8:
		return int8(u)
	case types.Int16:
		return int16(u)
	case types.Int32, types.UntypedRune:
		return int32(u)
	case types.Int64, types.UntypedInt:
		return int64(u)
	case types.Uint:
		return uint(u)
	case types.Uint8:
		return uint8(u)
	case types.Uint16:
		return uint16(u)
	case types.Uint32:
		return uint32(u)
	case types.Uint64:
		return u
	case types.Uintptr:
		return uintptr(u)
	}
	return t
}

func isZeroValue(v value) bool {
	switch x := v.(type) {
	case int:
		return x == 0
	case int8:
		return x == 0
	case int16:
		return x == 0
	case int32:
		return x == 0
	case int64:
		return x == 0
	case uint:
		return x == 0
	case uint8:
		return x == 0
	case uint16:
		return x == 0
	case uint32:
		return x == 0
	case uint64:
		return x == 0
	case uintptr:
		return x == 0
	}
	return false
}

func (i *interpreter) binop(op token.Token, t types.Type, x, y value) value {
	_, ssx := x.(symString)
	_, ssy := y.(symString)
	if ssx || ssy {
		switch op {
		case token.ADD:
			xb, _ := strBytes(x)
			yb, _ := strBytes(y)
			return symString{b: append(append([]value(nil), xb...), yb...)}
		case token.EQL:
			return i.equals(t, x, y)
		case token.NEQ:
			return i.boolNot(i.equals(t, x, y))
		}
		panic(engineError{"unsupported operation on symbolic string: " + op.String()})
	}
	_, sx := x.(*Term)
	_, sy := y.(*Term)
	if !sx && !sy {
		if (op == token.QUO || op == token.REM) && isZeroValue(y) {
			panic(targetPanic{v: runtimeErr("integer divide by zero")})
		}
		return i.cbinop(op, t, x, y)
	}
	return i.symBinop(op, t, x, y)
}

func (i *interpreter) symBinop(op token.Token, t types.Type, x, y value) value {
	st := i.p.st()
	if op == token.EQL {
		return i.equals(t, x, y)
	}
	if op == token.NEQ {
		return i.boolNot(i.equals(t, x, y))
	}
	a := st.lift(x)
	if a.sort.K == SBool {
		b := st.lift(y)
		switch op {
		case token.AND, token.LAND:
			return simplify(st.And(a, b))
		case token.OR, token.LOR:
			return simplify(st.Or(a, b))
		}
		panic(engineError{fmt.Sprintf("symbolic bool op %s", op)})
	}
	if a.sort.K == SInt {
		return i.bigBinop(op, a, st.lift(y))
	}
	signed := isSigned(t)
	if op == token.SHL || op == token.SHR {
		b := st.lift(y)
		// shift count: unsigned, any width; Go semantics: count >= width gives 0 / sign fill
		if b.sort.W < a.sort.W {
			b = st.ZeroExt(b, a.sort.W-b.sort.W)
		} else if b.sort.W > a.sort.W {
			// if high bits set the count is >= width; saturate
			hi := st.Extract(b, b.sort.W-1, a.sort.W)
			lo := st.Extract(b, a.sort.W-1, 0)
			big := st.Not(st.Eq(hi, st.BVConst(0, hi.sort.W)))
			b = st.Ite(big, st.BVConstBig(mask(a.sort.W), a.sort.W), lo)
		}
		var r *Term
		switch {
		case op == token.SHL:
			r = st.bvBin("bvshl", a, b)
		case signed:
			r = st.bvBin("bvashr", a, b)
		default:
			r = st.bvBin("bvlshr", a, b)
		}
		return termToValue(r, t)
	}
	b := st.lift(y)
	if a.sort != b.sort {
		panic(engineError{fmt.Sprintf("symbolic binop %s: sorts %v vs %v (type %v)", op, a.sort, b.sort, t)})
	}
	var r *Term
	switch op {
	case token.ADD:
		r = st.bvBin("bvadd", a, b)
	case token.SUB:
		r = st.bvBin("bvsub", a, b)
	case token.MUL:
		r = st.bvBin("bvmul", a, b)
	case token.QUO, token.REM:
		// division by zero panics
		z := st.Eq(b, st.BVConst(0, b.sort.W))
		if i.p.branch(z, "divide by zero") {
			panic(targetPanic{v: runtimeErr("integer divide by zero")})
		}
		switch {
		case op == token.QUO && signed:
			r = st.bvBin("bvsdiv", a, b)
		case op == token.QUO:
			r = st.bvBin("bvudiv", a, b)
		case signed:
			r = st.bvBin("bvsrem", a, b)
		default:
			r = st.bvBin("bvurem", a, b)
		}
	case token.AND:
		r = st.bvBin("bvand", a, b)
	case token.OR:
		r = st.bvBin("bvor", a, b)
	case token.XOR:
		r = st.bvBin("bvxor", a, b)
	case token.AND_NOT:
		r = st.bvBin("bvand", a, st.BVNot(b))
	case token.LSS, token.LEQ, token.GTR, token.GEQ:
		if op == token.GTR || op == token.GEQ {
			a, b = b, a
		}
		strict := op == token.LSS || op == token.GTR
		name := "bvu"
		if signed {
			name = "bvs"
		}
		if strict {
			name += "lt"
		} else {
			name += "le"
		}
		return simplify(st.bvCmp(name, a, b))
	default:
		panic(engineError{fmt.Sprintf("symbolic binop %s unsupported", op)})
	}
	return termToValue(r, t)
}

func (i *interpreter) symUnop(instr *ssa.UnOp, t *Term) value {
	st := i.p.st()
	switch instr.Op {
	case token.NOT:
		return simplify(st.Not(t))
	case token.SUB:
		if t.sort.K == SInt {
			return st.IntBin("-", st.IntConst(big.NewInt(0)), t)
		}
		return termToValue(st.BVNeg(t), instr.Type())
	case token.XOR:
		return termToValue(st.BVNot(t), instr.Type())
	}
	panic(engineError{fmt.Sprintf("symbolic unop %s", instr.Op)})
}

func (i *interpreter) symConv(tDst, tSrc types.Type, t *Term) value {
	st := i.p.st()
	bd := basicOf(tDst)
	if bd == nil || t.sort.K != SBV {
		if t.sort.K == SBool && bd != nil && bd.Kind() == types.Bool {
			return t
		}
		panic(engineError{fmt.Sprintf("symbolic conversion %v -> %v", tSrc, tDst)})
	}
	if bd.Info()&types.IsInteger == 0 {
		panic(engineError{fmt.Sprintf("symbolic conversion to non-integer %v -> %v%s", tSrc, tDst, "")})
	}
	wd := widthOf(tDst)
	ws := t.sort.W
	var r *Term
	switch {
	case wd == ws:
		r = t
	case wd < ws:
		r = st.Extract(t, wd-1, 0)
	case isSigned(tSrc):
		r = st.SignExt(t, wd-ws)
	default:
		r = st.ZeroExt(t, wd-ws)
	}
	return termToValue(r, tDst)
}

// asInt returns a concrete int64 for an integer value, forking over
// the feasible values of a symbolic one.
func (i *interpreter) asInt(x value, what string) int64 {
	if t, ok := x.(*Term); ok {
		v := i.p.concretize(t, i.prog.opts.MaxConcretize, what)
		// interpret according to sign bit? callers pass lengths/indices; treat as signed of its width
		if t.sort.K == SBV && t.sort.W <= 64 {
			u := v.Uint64()
			if t.sort.W < 64 && v.Bit(t.sort.W-1) == 1 {
				return int64(u) - (1 << uint(t.sort.W))
			}
			return int64(u)
		}
		return v.Int64()
	}
	return asInt64(x)
}

// index checks 0 <= idx < n and returns the concrete index.
func (i *interpreter) index(idx value, n int) int {
	if t, ok := idx.(*Term); ok {
		st := i.p.st()
		// unsigned comparison catches negatives as well
		inb := st.bvCmp("bvult", t, st.BVConst(uint64(n), t.sort.W))
		if !i.p.branch(inb, "index in range") {
			panic(targetPanic{v: runtimeErr(fmt.Sprintf("index out of range [sym] with length %d", n))})
		}
		return int(i.asInt(t, "index"))
	}
	k := asInt64(idx)
	if k < 0 || k >= int64(n) {
		panic(targetPanic{v: runtimeErr(fmt.Sprintf("index out of range [%d] with length %d", k, n))})
	}
	return int(k)
}

// slice returns x[lo:hi:max].
func (i *interpreter) slice(x, lo, hi, max value) value {
	var Len, Cap int
	switch x := x.(type) {
	case string:
		Len = len(x)
		Cap = Len
	case symString:
		Len = len(x.b)
		Cap = Len
	case []value:
		Len = len(x)
		Cap = cap(x)
	case *value:
		if x == nil {
			panic(targetPanic{v: runtimeErr("invalid memory address or nil pointer dereference")})
		}
		a := (*x).(array)
		Len = len(a)
		Cap = cap(a)
	}
	bound := func(v value, def int64, what string) int64 {
		if v == nil {
			return def
		}
		if t, ok := v.(*Term); ok {
			st := i.p.st()
			inb := st.bvCmp("bvule", t, st.BVConst(uint64(Cap), t.sort.W))
			if !i.p.branch(inb, "slice bound in range") {
				panic(targetPanic{v: runtimeErr("slice bounds out of range [sym] with capacity " + fmt.Sprint(Cap))})
			}
			return i.asInt(t, what)
		}
		return asInt64(v)
	}
	l := bound(lo, 0, "slice low")
	h := bound(hi, int64(Len), "slice high")
	m := bound(max, int64(Cap), "slice max")
	if _, isStr := x.(string); isStr {
		m = int64(Len)
	}
	if _, isStr := x.(symString); isStr {
		m = int64(Len)
	}
	if l < 0 || h < l || m < h || m > int64(Cap) {
		panic(targetPanic{v: runtimeErr(fmt.Sprintf("slice bounds out of range [%d:%d:%d] with capacity %d", l, h, m, Cap))})
	}
	switch x := x.(type) {
	case string:
		return x[l:h]
	case symString:
		return symString{b: x.b[l:h]}
	case []value:
		return x[l:h:m]
	case *value:
		a := (*x).(array)
		return []value(a)[l:h:m]
	}
	panic(engineError{fmt.Sprintf("slice: unexpected X type: %T", x)})
}

func (i *interpreter) lookup(instr *ssa.Lookup, x, idx value) value {
	switch x := x.(type) {
	case *smap:
		var v value
		e := x.find(i, idx)
		ok := e != nil
		if ok {
			v = copyVal(e.val)
		} else {
			v = zero(instr.X.Type().Underlying().(*types.Map).Elem())
		}
		if instr.CommaOk {
			v = tuple{v, ok}
		}
		return v
	case string:
		k := i.index(idx, len(x))
		return x[k]
	}
	panic(engineError{fmt.Sprintf("unexpected x type in Lookup: %T", x)})
}

func (i *interpreter) minmax(fn *ssa.Builtin, args []value, isMin bool) value {
	t := fn.Type().(*types.Signature).Params().At(0).Type()
	x := args[0]
	for _, y := range args[1:] {
		var c value
		if isMin {
			c = i.binop(token.LSS, t, y, x)
		} else {
			c = i.binop(token.GTR, t, y, x)
		}
		switch c := c.(type) {
		case bool:
			if c {
				x = y
			}
		case *Term:
			st := i.p.st()
			x = termToValue(st.Ite(c, st.lift(y), st.lift(x)), t)
		}
	}
	return x
}

// bigBinop: arithmetic on unbounded Int terms (math/big model).
func (i *interpreter) bigBinop(op token.Token, a, b *Term) value {
	st := i.p.st()
	switch op {
	case token.ADD:
		return st.IntBin("+", a, b)
	case token.SUB:
		return st.IntBin("-", a, b)
	case token.LSS:
		return simplify(st.IntCmp("<", a, b))
	case token.LEQ:
		return simplify(st.IntCmp("<=", a, b))
	case token.GTR:
		return simplify(st.IntCmp(">", a, b))
	case token.GEQ:
		return simplify(st.IntCmp(">=", a, b))
	}
	panic(engineError{"bigBinop " + op.String()})
}
