package main

import (
	"runtime/pprof"
	"encoding/json"
	"flag"
	"fmt"
	"os"
	"regexp"
	"strconv"
	"strings"

	"gosym/sym"
)

func main() {
	dir := flag.String("dir", "/repo", "module directory")
	pattern := flag.String("pkg", ".", "package pattern")
	overlayF := flag.String("overlay", "", "JSON file {virtual path: real path}")
	harness := flag.String("harness", "VerifH_.*", "regexp of harness function names")
	out := flag.String("out", "", "write JSON results here")
	workers := flag.Int("workers", 0, "worker count (0 = NumCPU)")
	unwind := flag.Int("unwind", 64, "symbolic-branch unwind bound per loop site and activation")
	maxpaths := flag.Int64("maxpaths", 0, "path budget per harness (0 = unlimited)")
	maxinstr := flag.Int64("maxinstrs", 20000000, "instruction budget per path")
	inits := flag.String("init", "", "comma-separated package paths whose init runs first")
	params := flag.String("param", "", "k=v,k=v harness parameters")
	known := flag.String("known", "", "comma-separated open known-finding ids")
	solver := flag.String("solver", "z3", "z3 | z3-new | cvc5")
	timeout := flag.Int("timeout", 60000, "solver timeout per query (ms)")
	trace := flag.Bool("trace", false, "trace calls")
	logsmt := flag.String("logsmt", "", "directory for SMT logs")
	list := flag.Bool("list", false, "list harnesses")
	cpuprof := flag.String("cpuprofile", "", "write a CPU profile here")
	passReplays := flag.Int("passreplays", 0, "export this many passing paths per harness with a model of their inputs")
	flag.Parse()
	if *cpuprof != "" {
		f, err := os.Create(*cpuprof)
		if err == nil {
			pprof.StartCPUProfile(f)
			defer pprof.StopCPUProfile()
		}
	}

	overlay := map[string][]byte{}
	if *overlayF != "" {
		b, err := os.ReadFile(*overlayF)
		if err != nil {
			fatal(err)
		}
		m := map[string]string{}
		if err := json.Unmarshal(b, &m); err != nil {
			fatal(err)
		}
		for virt, real := range m {
			c, err := os.ReadFile(real)
			if err != nil {
				fatal(err)
			}
			overlay[virt] = c
		}
	}
	prog, err := sym.Load(*dir, *pattern, overlay)
	if err != nil {
		fatal(err)
	}
	o := sym.DefaultOpts()
	if *workers > 0 {
		o.Workers = *workers
	}
	o.Unwind = *unwind
	o.MaxPaths = *maxpaths
	o.MaxInstrs = *maxinstr
	o.PassReplays = *passReplays
	o.Solver = *solver
	o.TimeoutMs = *timeout
	o.Trace = *trace
	o.LogSMT = *logsmt
	if *inits != "" {
		o.InitPkgs = strings.Split(*inits, ",")
	}
	for _, kv := range strings.Split(*params, ",") {
		if kv == "" {
			continue
		}
		p := strings.SplitN(kv, "=", 2)
		n, err := strconv.Atoi(p[1])
		if err != nil {
			fatal(err)
		}
		o.Params[p[0]] = n
	}
	for _, k := range strings.Split(*known, ",") {
		if k != "" {
			o.KnownOpen[k] = true
		}
	}
	prog.SetOpts(o)
	re := regexp.MustCompile("^(" + *harness + ")$")
	var results []*sym.HarnessResult
	for _, h := range prog.Harnesses() {
		if !re.MatchString(h) {
			continue
		}
		if *list {
			fmt.Println(h)
			continue
		}
		r := prog.RunHarness(h)
		fmt.Fprintln(os.Stderr, r.Summary())
		for _, e := range r.EngineErrs {
			fmt.Fprintln(os.Stderr, "  ENGINE:", e)
		}
		for _, v := range r.Violations {
			fmt.Fprintf(os.Stderr, "  VIOLATION %s %s: %s\n", v.Kind, v.Label, v.Msg)
		}
		for k, n := range r.Known {
			fmt.Fprintf(os.Stderr, "  KNOWN %s x%d\n", k, n)
		}
		results = append(results, r)
	}
	if *out != "" {
		b, _ := json.MarshalIndent(results, "", " ")
		if err := os.WriteFile(*out, b, 0o644); err != nil {
			fatal(err)
		}
	}
}

func fatal(err error) {
	fmt.Fprintln(os.Stderr, "gosym:", err)
	os.Exit(2)
}
